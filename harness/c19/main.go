// c19: relaxed mode finds the same rules as strict mode, wherever they are nested. DESIGN.md §2 C19.
package main

import (
	"fmt"
	"os"
	"strings"

	"github.com/prometheus/common/model"

	"github.com/cloudflare/pint/internal/discovery"
	"github.com/cloudflare/pint/internal/parser"
	"github.com/cloudflare/pint/verifharness/explore"
	"github.com/cloudflare/pint/verifharness/lib/pipeline"
	"github.com/cloudflare/pint/verifharness/lib/rulegen"
)

type ruleSig struct {
	Kind, Name, Expr string
	First, Last      int
	Fields           []string // name=value@pos
}

// sigs describes the rules of a parse; shiftLine/shiftCol are added to every position (to displace a
// reference parse). ok=false when the file or some rule failed to parse.
func sigs(entries []discovery.Entry, shiftLine, shiftCol int) (out []ruleSig, ok bool) {
	ok = true
	for _, e := range entries {
		if e.PathError != nil || e.Rule.Error.Err != nil {
			ok = false
			continue
		}
		s := ruleSig{Kind: string(e.Rule.Type()), Name: e.Rule.Name(), Expr: e.Rule.Expr().Value.Value, First: e.Rule.Lines.First + shiftLine, Last: e.Rule.Lines.Last + shiftLine}
		for _, f := range pipeline.Fields(e.Rule) {
			var ps []string
			for _, p := range f.Node.Pos {
				ps = append(ps, fmt.Sprintf("%d:%d-%d", p.Line+shiftLine, p.FirstColumn+shiftCol, p.LastColumn+shiftCol))
			}
			s.Fields = append(s.Fields, fmt.Sprintf("%s=%q@%s", f.Name, f.Node.Value, strings.Join(ps, ",")))
		}
		out = append(out, s)
	}
	return out, ok
}

// priorFile is the file parsed right before the next parse (lib/pipeline.PriorFiles; 0 = the neutral one).
var priorFile int

func parse(content string, strict bool) ([]discovery.Entry, bool) {
	pipeline.Prime(priorFile)
	priorFile = 0
	entries, crash := pipeline.Parse("rules.yml", []byte(content), strict, parser.PrometheusSchema, model.UTF8Validation)
	return entries, crash == nil
}

func diff(a, b []ruleSig) string {
	if len(a) != len(b) {
		return fmt.Sprintf("%d rules vs %d rules", len(a), len(b))
	}
	for i := range a {
		if fmt.Sprint(a[i]) != fmt.Sprint(b[i]) {
			x, y := fmt.Sprintf("%+v", a[i]), fmt.Sprintf("%+v", b[i])
			return fmt.Sprintf("rule %d differs:\n  expected: %s\n  got:      %s", i, x, y)
		}
	}
	return ""
}

// (i) strict-valid documents: strict vs relaxed
func modes(genr func(c *explore.Chooser) (string, []string, bool)) explore.Body {
	return func(c *explore.Chooser) *explore.Case {
		text, choices, valid := genr(c)
		if !valid {
			return &explore.Case{Skip: true}
		}
		se, ok1 := parse(text, true)
		if !ok1 {
			return &explore.Case{Skip: true}
		}
		ss, sok := sigs(se, 0, 0)
		if !sok || len(ss) == 0 {
			// not valid in strict mode: outside the property
			return &explore.Case{Outcome: "not-strict-valid", Trivial: true, Input: map[string]any{"file": text}}
		}
		input := map[string]any{"choices": choices, "file": text}
		cs := &explore.Case{Input: input, Key: text, Outcome: fmt.Sprintf("rules=%d", len(ss))}
		re, ok2 := parse(text, false)
		if !ok2 {
			cs.Violate("relaxed-crash", "relaxed parse crashed on a strict-valid file", input)
			return cs
		}
		rs, _ := sigs(re, 0, 0)
		if d := diff(ss, rs); d != "" {
			cs.Violate("strict-vs-relaxed: "+classify(d), "relaxed mode yields different rules than strict mode: "+d, input)
		}
		return cs
	}
}

func classify(d string) string {
	if strings.Contains(d, "rules vs") {
		return "rule-count"
	}
	return "rule-content"
}

// (ii) wrappers
var bases = []string{
	"- alert: A\n  expr: up == 0\n  for: 5m\n  labels:\n    severity: page\n  annotations:\n    summary: down\n- record: job:up:sum\n  expr: sum(up) by (job)\n",
	"- record: a:b\n  expr: |\n    sum(up)\n      by (job)\n  labels:\n    team: x\n",
	"- alert: 'Quoted Name'\n  expr: >-\n    up\n    == 0\n  keep_firing_for: 1m\n  annotations: {summary: \"hello world\"}\n",
	"- alert: A\n  expr: up ==\n      0\n\n- alert: B\n  # comment\n  expr: \"up == 1\"\n",
}

// rule lists with one physical line just under a 4 KiB boundary (readers that buffer lines in 4096-byte chunks),
// followed by another rule: any indentation added by a wrapper pushes the line across the boundary
func init() {
	for _, n := range []int{4090, 4094, 4095} {
		head := "  expr: up{job=\""
		tail := "\"} == 0"
		bases = append(bases, "- alert: Long\n"+head+strings.Repeat("a", n-len(head)-len(tail))+tail+"\n  for: 5m\n- record: after:long\n  expr: sum(up) by (job)\n")
	}
}

type wrapOp struct {
	name string
}

var ops = []string{"stop", "map-key-indent2", "map-key-indent0", "seq-item", "sibling-before", "sibling-after", "map-key-rules", "groups-wrapper", "map-key-indent4", "sibling-multiline-before"}

func indent(lines []string, n int) []string {
	out := make([]string, len(lines))
	for i, l := range lines {
		if l == "" {
			out[i] = l
		} else {
			out[i] = strings.Repeat(" ", n) + l
		}
	}
	return out
}

func wrappers(c *explore.Chooser) *explore.Case {
	bi := c.Free(len(bases), "base")
	lines := strings.Split(strings.TrimSuffix(bases[bi], "\n"), "\n")
	shiftL, shiftC := 0, 0
	isMap := false // the current top level of `lines` is a mapping (so sibling keys can be added)
	var applied []string
	for depth := 0; depth < 4; depth++ {
		op := c.Free(len(ops), fmt.Sprintf("op%d", depth))
		if op == 0 {
			break
		}
		name := ops[op]
		switch name {
		case "map-key-indent2", "map-key-indent4", "map-key-rules":
			n := 2
			if name == "map-key-indent4" {
				n = 4
			}
			key := fmt.Sprintf("level%d", depth)
			if name == "map-key-rules" {
				key = "rules"
			}
			lines = append([]string{key + ":"}, indent(lines, n)...)
			shiftL, shiftC = shiftL+1, shiftC+n
			isMap = true
		case "map-key-indent0":
			if isMap || !strings.HasPrefix(lines[0], "- ") {
				return &explore.Case{Skip: true}
			}
			lines = append([]string{fmt.Sprintf("level%d:", depth)}, lines...)
			shiftL++
			isMap = true
		case "seq-item":
			ind := indent(lines, 2)
			ind[0] = "- " + lines[0]
			lines = ind
			shiftC += 2
			isMap = false
		case "sibling-before":
			if !isMap {
				return &explore.Case{Skip: true}
			}
			lines = append([]string{fmt.Sprintf("aaa%d: 1", depth)}, lines...)
			shiftL++
		case "sibling-multiline-before":
			if !isMap {
				return &explore.Case{Skip: true}
			}
			lines = append([]string{fmt.Sprintf("text%d: |", depth), "  some text", "  more text"}, lines...)
			shiftL += 3
		case "sibling-after":
			if !isMap {
				return &explore.Case{Skip: true}
			}
			lines = append(lines, fmt.Sprintf("zzz%d: [1, 2]", depth))
		case "groups-wrapper":
			if depth != 0 {
				return &explore.Case{Skip: true}
			}
			lines = append([]string{"groups:", "- name: g", "  rules:"}, indent(lines, 2)...)
			shiftL, shiftC = shiftL+3, shiftC+2
			isMap = true
		}
		applied = append(applied, name)
	}
	docs := c.Free(4, "documents")
	switch docs {
	case 1:
		lines = append([]string{"---", "foo: bar", "---"}, lines...)
		shiftL += 3
		applied = append(applied, "doc-before")
	case 2:
		lines = append(lines, "---", "foo: bar")
		applied = append(applied, "doc-after")
	case 3:
		lines = append([]string{"---"}, lines...)
		shiftL++
		applied = append(applied, "doc-marker")
	}
	// a second, different rule list elsewhere in the file: under a sibling key after the wrapped one, or in a
	// document of its own. Both lists must be found, each where it is.
	const extraList = "- record: extra:rule\n  expr: vector(1)\n- alert: ExtraAlert\n  expr: up == 2\n"
	extraAt := -1
	switch c.Free(3, "second-rule-list") {
	case 1:
		if !isMap || docs == 2 {
			return &explore.Case{Skip: true}
		}
		lines = append(lines, "morerules:")
		extraAt = len(lines)
		lines = append(lines, strings.Split(strings.TrimSuffix(extraList, "\n"), "\n")...)
		applied = append(applied, "second-list-under-sibling-key")
	case 2:
		lines = append(lines, "---")
		extraAt = len(lines)
		lines = append(lines, strings.Split(strings.TrimSuffix(extraList, "\n"), "\n")...)
		applied = append(applied, "second-list-in-own-document")
	}
	text := strings.Join(lines, "\n") + "\n"
	be, ok := parse(bases[bi], false)
	if !ok {
		panic("base does not parse")
	}
	want, wok := sigs(be, shiftL, shiftC)
	if !wok || len(want) == 0 {
		panic("base has errors")
	}
	if extraAt >= 0 {
		ee, ok := parse(extraList, false)
		if !ok {
			panic("extra list does not parse")
		}
		ew, _ := sigs(ee, extraAt, 0)
		want = append(want, ew...)
	}
	input := map[string]any{"base": bi, "wrappers": applied, "file": text, "line_shift": shiftL, "column_shift": shiftC}
	cs := &explore.Case{Input: input, Key: text, Trivial: len(applied) == 0, Outcome: fmt.Sprintf("depth=%d", len(applied))}
	// the wrapped file is parsed after one of five other files: nothing of an earlier parse may reach it
	priorFile = c.Free(len(pipeline.PriorFiles), "file-parsed-before")
	if priorFile > 0 {
		input["file_parsed_before"] = pipeline.PriorFiles[priorFile]
		cs.Key = fmt.Sprint(priorFile) + text
	}
	we, ok := parse(text, false)
	if !ok {
		cs.Violate("relaxed-crash", "relaxed parse crashed on a wrapped rule list", input)
		return cs
	}
	got, _ := sigs(we, 0, 0)
	if d := diff(want, got); d != "" {
		cs.Violate("wrapped: "+classify(d)+" first-op="+first(applied), "rules found under the wrapper differ from the unwrapped rules displaced by the wrapper: "+d, input)
	}
	return cs
}

func first(a []string) string {
	if len(a) == 0 {
		return "none"
	}
	return a[len(a)-1] // outermost
}

func main() {
	// one P per worker: pooled objects released by one parse reach the next one deterministically
	if os.Getenv("VERIF_WORKER_GOMAXPROCS") == "" {
		os.Setenv("VERIF_WORKER_GOMAXPROCS", "1")
	}
	k := func(t string) int {
		if t == "thorough" {
			return 3
		}
		return 2
	}
	explore.Main(&explore.Config{
		Property: "C19", Level: "exploration",
		Rule:        "(i) every strict-valid document among the styled (17 scalar styles x layouts) and semantic (all field deviations) generators with <=k deviations (k=2 quick, 3 thorough): strict parse vs relaxed parse, compared on kind, name, expr, line range and every position range of every field; (ii) 7 rule lists (3 with a physical line of 4090-4095 bytes, just under a 4 KiB buffer) x every wrapper sequence of depth<=4 over {mapping key (indent 0/2/4, incl. a key named rules), sequence item, sibling keys before/after (scalar, block text, flow seq), groups wrapper} x {extra document before/after, leading ---} x {no second rule list, one under a sibling key, one in a document of its own} x 5 files parsed before in the same process: relaxed parse of the wrapped file vs relaxed parse of the bare list displaced by the wrapper's line and column shift. distinct = distinct file bytes",
		Assumptions: []string{"documents that are not strict-valid are outside clause (i) and counted as trivial"},
		Spaces: []*explore.Space{
			{Name: "modes-styled", Bound: k, Body: modes(func(c *explore.Chooser) (string, []string, bool) {
				d := rulegen.Styled(c)
				return d.Text, d.Choices, d.Valid && strings.HasPrefix(d.Text, "groups:")
			})},
			{Name: "modes-semantic", Bound: k, Body: modes(func(c *explore.Chooser) (string, []string, bool) {
				d := rulegen.Semantic(c)
				return d.Text, d.Deviations, true
			})},
			{Name: "wrappers", Bound: func(string) int { return -1 }, Body: wrappers},
		},
		BudgetS: func(t string) int {
			if t == "thorough" {
				return 1200
			}
			return 200
		},
	})
}
