#!/bin/bash
# scan.go of the current tree with its synchronisation replaced by scheduler shims
set -eu
B="$1"
"$VERIF_DIR/scripts/build.sh" rewrite >/dev/null
mkdir -p "$B/rw"
"$VERIF_DIR/.build/rewrite/bin/rewrite" -o "$B/rw/scan.go" "$VERIF_REPO/cmd/pint/scan.go" 1>&2
echo "--replace"
echo "cmd/pint/scan.go=$B/rw/scan.go"
