// c15: failover happens on unavailability only, and outages degrade to warnings. DESIGN.md §2 C15.
// Fault enumeration over the real net/http stack: every assignment of a fault mode to each upstream.
package main

import (
	"context"
	"errors"
	"fmt"
	"net/http"
	"net/http/httptest"
	"strings"
	"sync"
	"syscall"
	"time"

	"github.com/prometheus/client_golang/prometheus"
	"github.com/prometheus/common/model"

	"github.com/cloudflare/pint/internal/checks"
	"github.com/cloudflare/pint/internal/config"
	"github.com/cloudflare/pint/internal/parser"
	"github.com/cloudflare/pint/internal/promapi"
	"github.com/cloudflare/pint/verifharness/explore"
	"github.com/cloudflare/pint/verifharness/lib/pipeline"
)

type mode struct {
	name        string
	unavailable bool // connection error, timeout or server (5xx) error
	healthy     bool
}

var modes = []mode{
	{"healthy", false, true},
	{"refused", true, false},
	{"http-500-text", true, false},
	{"http-503-json-server_error", true, false},
	{"http-400-bad_data", false, false},
	{"http-422-execution", false, false},
	{"http-404", false, false},
	{"http-200-truncated-json", false, false},
	{"header-timeout", true, false},
	{"http-502-html", true, false},
}

var endpoints = []string{"query", "query_range", "config", "flags", "metadata"}

type upstream struct {
	boundFD int
	done    chan struct{}
	srv  *httptest.Server
	uri  string
	mu   sync.Mutex
	hits int
	only string // when set, the fault mode applies to this endpoint only; the others are served healthily
}

func payload(endpoint string, idx int) string {
	switch endpoint {
	case "query":
		return fmt.Sprintf(`{"status":"success","data":{"resultType":"vector","result":[{"metric":{"__name__":"up","upstream":"%d"},"value":[1700000000,"1"]}]}}`, idx)
	case "query_range":
		return fmt.Sprintf(`{"status":"success","data":{"resultType":"matrix","result":[{"metric":{"__name__":"up","upstream":"%d"},"values":[[1700000000,"1"]]}]}}`, idx)
	case "config":
		return fmt.Sprintf(`{"status":"success","data":{"yaml":"global:\n  scrape_interval: 1m\n  external_labels:\n    upstream: \"%d\"\n"}}`, idx)
	case "flags":
		return fmt.Sprintf(`{"status":"success","data":{"storage.tsdb.retention.time":"%dd"}}`, idx+1)
	default:
		return fmt.Sprintf(`{"status":"success","data":{"up":[{"type":"gauge","help":"upstream %d","unit":""}]}}`, idx)
	}
}

func newUpstream(idx int, m mode) *upstream {
	u := &upstream{done: make(chan struct{}), boundFD: -1}
	if m.name == "refused" {
		// a socket that is bound but never listens: connections are refused and, unlike a closed listener,
		// the port cannot be handed to the next upstream's server while this case runs
		fd, err := syscall.Socket(syscall.AF_INET, syscall.SOCK_STREAM, 0)
		if err != nil {
			panic(err)
		}
		if err := syscall.Bind(fd, &syscall.SockaddrInet4{Port: 0, Addr: [4]byte{127, 0, 0, 1}}); err != nil {
			panic(err)
		}
		sa, err := syscall.Getsockname(fd)
		if err != nil {
			panic(err)
		}
		u.boundFD = fd
		u.uri = fmt.Sprintf("http://127.0.0.1:%d", sa.(*syscall.SockaddrInet4).Port)
		return u
	}
	u.srv = httptest.NewServer(http.HandlerFunc(func(w http.ResponseWriter, r *http.Request) {
		u.mu.Lock()
		u.hits++
		u.mu.Unlock()
		ep := r.URL.Path[strings.LastIndex(r.URL.Path, "/")+1:]
		if strings.HasSuffix(r.URL.Path, "/status/config") {
			ep = "config"
		} else if strings.HasSuffix(r.URL.Path, "/status/flags") {
			ep = "flags"
		}
		w.Header().Set("Content-Type", "application/json")
		name := m.name
		if u.only != "" && ep != u.only {
			name = "healthy"
		}
		switch name {
		case "healthy":
			w.Write([]byte(payload(ep, idx)))
		case "http-500-text":
			w.Header().Set("Content-Type", "text/plain")
			w.WriteHeader(500)
			w.Write([]byte("internal error, not json"))
		case "http-502-html":
			w.Header().Set("Content-Type", "text/html")
			w.WriteHeader(502)
			w.Write([]byte("<html>bad gateway</html>"))
		case "http-503-json-server_error":
			w.WriteHeader(503)
			w.Write([]byte(`{"status":"error","errorType":"server_error","error":"server is overloaded"}`))
		case "http-400-bad_data":
			w.WriteHeader(400)
			w.Write([]byte(`{"status":"error","errorType":"bad_data","error":"invalid parameter \"query\": parse error"}`))
		case "http-422-execution":
			w.WriteHeader(422)
			w.Write([]byte(`{"status":"error","errorType":"execution","error":"many-to-many matching not allowed"}`))
		case "http-404":
			w.WriteHeader(404)
			w.Write([]byte(`404 page not found`))
		case "http-200-truncated-json":
			p := payload(ep, idx)
			w.Write([]byte(p[:len(p)/2]))
		case "header-timeout":
			select {
			case <-r.Context().Done():
			case <-u.done:
			}
		}
	}))
	u.uri = u.srv.URL
	return u
}

func (u *upstream) close() {
	close(u.done)
	if u.boundFD >= 0 {
		syscall.Close(u.boundFD)
	}
	if u.srv != nil {
		u.srv.CloseClientConnections()
		u.srv.Close()
	}
}

func (u *upstream) count() int {
	u.mu.Lock()
	defer u.mu.Unlock()
	return u.hits
}

type fixedRange struct{}

func (fixedRange) Start() time.Time    { return time.Unix(1700000000, 0).Add(-time.Hour) }
func (fixedRange) End() time.Time      { return time.Unix(1700000000, 0) }
func (fixedRange) Dur() time.Duration  { return time.Hour }
func (fixedRange) Step() time.Duration { return 5 * time.Minute }
func (fixedRange) String() string      { return "1h/5m" }

func maxUpstreams() int {
	if tier == "thorough" {
		return 3
	}
	return 2
}

var tier string

func failover(c *explore.Chooser) *explore.Case {
	n := 1 + c.Free(maxUpstreams(), "upstreams")
	ep := endpoints[c.Free(len(endpoints), "endpoint")]
	assign := make([]mode, n)
	var names []string
	timeouts := 0
	for i := range assign {
		assign[i] = modes[c.Free(len(modes), fmt.Sprintf("mode%d", i))]
		names = append(names, assign[i].name)
		if assign[i].name == "header-timeout" {
			timeouts++
		}
	}
	if timeouts > 1 && tier != "thorough" {
		return &explore.Case{Skip: true} // each timeout costs >1 s of real time
	}
	ups := make([]*upstream, n)
	var servers []*promapi.Prometheus
	for i := range ups {
		ups[i] = newUpstream(i, assign[i])
		defer ups[i].close()
		servers = append(servers, promapi.NewPrometheus("prom", ups[i].uri, "", nil, 50*time.Millisecond, 2, 1000, nil))
	}
	fg := promapi.NewFailoverGroup("prom", ups[0].uri, servers, false, "up", nil, nil, nil)
	reg := prometheus.NewRegistry()
	fg.StartWorkers(reg)
	defer fg.Close(reg)

	ctx := context.Background()
	var err error
	answered := "" // the marker of the upstream whose payload came back
	switch ep {
	case "query":
		var r *promapi.QueryResult
		r, err = fg.Query(ctx, "up")
		if err == nil && len(r.Series) == 1 {
			answered = r.Series[0].Labels.Get("upstream")
		}
	case "query_range":
		var r *promapi.RangeQueryResult
		r, err = fg.RangeQuery(ctx, "up", fixedRange{})
		if err == nil && len(r.Series.Ranges) == 1 {
			answered = r.Series.Ranges[0].Labels.Get("upstream")
		}
	case "config":
		var r *promapi.ConfigResult
		r, err = fg.Config(ctx, 0)
		if err == nil {
			answered = r.Config.Global.ExternalLabels["upstream"]
		}
	case "flags":
		var r *promapi.FlagsResult
		r, err = fg.Flags(ctx)
		if err == nil {
			answered = strings.TrimSuffix(r.Flags["storage.tsdb.retention.time"], "d")
			if answered != "" {
				answered = fmt.Sprint(int(answered[0]-'0') - 1)
			}
		}
	case "metadata":
		var r *promapi.MetadataResult
		r, err = fg.Metadata(ctx, "up")
		if err == nil && len(r.Metadata) == 1 {
			answered = strings.TrimPrefix(r.Metadata[0].Help, "upstream ")
		}
	}
	input := map[string]any{"endpoint": ep, "upstreams": names}
	cs := &explore.Case{Input: input, Key: fmt.Sprint(ep, names)}

	// reference: walk the upstreams in configured order
	isQueryEndpoint := ep == "query" || ep == "query_range"
	movesOn := func(m mode) (moves bool, permissive bool) {
		if m.unavailable {
			return true, false
		}
		if m.name == "http-404" && !isQueryEndpoint {
			return true, true // pint treats "API not supported" like unavailability: not decided by the property
		}
		return false, false
	}
	wantContacted := make([]bool, n)
	first := -1
	for i, m := range assign {
		wantContacted[i] = true
		mv, _ := movesOn(m)
		if !mv {
			first = i
			break
		}
	}
	for i, u := range ups {
		if assign[i].name == "refused" {
			continue // nothing to observe on a closed port
		}
		got := u.count() > 0
		if got != wantContacted[i] {
			kind := "later-upstream-contacted-after-non-availability-error"
			if !got {
				kind = "upstream-skipped"
			}
			cs.Violate(fmt.Sprintf("%s endpoint=%s earlier=%s", kind, ep, strings.Join(names[:i], "+")),
				fmt.Sprintf("upstream %d (%s) contacted=%v, expected %v for assignment %v", i, assign[i].name, got, wantContacted[i], names), input)
		}
	}
	switch {
	case first >= 0 && assign[first].healthy:
		if err != nil {
			cs.Violate(fmt.Sprintf("healthy-upstream-not-used endpoint=%s", ep), fmt.Sprintf("upstream %d is healthy and every earlier one unavailable, but the call failed: %v", first, err), input)
		} else if answered != fmt.Sprint(first) {
			cs.Violate(fmt.Sprintf("wrong-upstream-answered endpoint=%s", ep), fmt.Sprintf("answer came from upstream %q, expected %d", answered, first), input)
		}
		cs.Outcome = "answered"
	case first >= 0:
		if err == nil {
			cs.Violate(fmt.Sprintf("query-error-swallowed endpoint=%s mode=%s", ep, assign[first].name), "the first reachable upstream returned an error caused by the query but the call succeeded", input)
		} else if promapi.IsUnavailableError(err) && assign[first].name != "http-404" {
			cs.Violate(fmt.Sprintf("query-error-reported-as-unavailable endpoint=%s mode=%s", ep, assign[first].name), "query-caused error came back classified as unavailability: "+err.Error(), input)
		} else {
			var fe *promapi.FailoverGroupError
			if errors.As(err, &fe) && fe.URI() != "" && !strings.Contains(ups[first].uri, strings.TrimPrefix(fe.URI(), "http://")) {
				cs.Violate(fmt.Sprintf("error-attributed-to-wrong-upstream endpoint=%s", ep), fmt.Sprintf("error says %s, the failing upstream is %s", fe.URI(), ups[first].uri), input)
			}
		}
		cs.Outcome = "query-error"
	default:
		if err == nil {
			cs.Violate(fmt.Sprintf("success-without-upstream endpoint=%s", ep), "every upstream is unavailable but the call succeeded", input)
		} else {
			allPlain := true
			for _, m := range assign {
				if !m.unavailable {
					allPlain = false
				}
			}
			if allPlain && !promapi.IsUnavailableError(err) {
				cs.Violate(fmt.Sprintf("outage-not-classified-unavailable endpoint=%s", ep), "all upstreams are unavailable but the error is not an unavailability error: "+err.Error(), input)
			}
		}
		cs.Outcome = "all-unavailable"
	}
	return cs
}

// ---- degrade: when every upstream is unavailable, online checks report one Warning (Bug if required) ----

const rulesYAML = "groups:\n- name: g\n  rules:\n  - alert: A\n    expr: rate(http_requests_total[2m]) > 0\n    for: 5m\n    labels:\n      severity: page\n    annotations:\n      summary: x\n  - record: r:sum\n    expr: sum(up) by (job)\n"

// sequences: two calls on one failover group. The first upstream misbehaves on one endpoint only; a following
// call to a *different* endpoint, which that upstream serves fine, must be answered by it - what an upstream did
// on one endpoint says nothing about another (pint only remembers "API unsupported" per endpoint).
func sequences(c *explore.Chooser) *explore.Case {
	e1 := endpoints[c.Free(len(endpoints), "first-endpoint")]
	e2 := endpoints[c.Free(len(endpoints), "second-endpoint")]
	if e1 == e2 {
		return &explore.Case{Skip: true}
	}
	var seqModes []mode
	for _, m := range modes {
		if m.name != "refused" && m.name != "header-timeout" {
			seqModes = append(seqModes, m)
		}
	}
	m := seqModes[c.Free(len(seqModes), "first-endpoint-mode")]
	ups := []*upstream{newUpstream(0, m), newUpstream(1, modes[0])}
	ups[0].only = e1
	var servers []*promapi.Prometheus
	for _, u := range ups {
		defer u.close()
		servers = append(servers, promapi.NewPrometheus("prom", u.uri, "", nil, time.Second, 2, 1000, nil))
	}
	fg := promapi.NewFailoverGroup("prom", ups[0].uri, servers, false, "up", nil, nil, nil)
	reg := prometheus.NewRegistry()
	fg.StartWorkers(reg)
	defer fg.Close(reg)
	call := func(ep string) (answered string, err error) {
		ctx := context.Background()
		switch ep {
		case "query":
			var r *promapi.QueryResult
			if r, err = fg.Query(ctx, "up"); err == nil && len(r.Series) == 1 {
				answered = r.Series[0].Labels.Get("upstream")
			}
		case "query_range":
			var r *promapi.RangeQueryResult
			if r, err = fg.RangeQuery(ctx, "up", fixedRange{}); err == nil && len(r.Series.Ranges) == 1 {
				answered = r.Series.Ranges[0].Labels.Get("upstream")
			}
		case "config":
			var r *promapi.ConfigResult
			if r, err = fg.Config(ctx, 0); err == nil {
				answered = r.Config.Global.ExternalLabels["upstream"]
			}
		case "flags":
			var r *promapi.FlagsResult
			if r, err = fg.Flags(ctx); err == nil {
				if v := strings.TrimSuffix(r.Flags["storage.tsdb.retention.time"], "d"); v != "" {
					answered = fmt.Sprint(int(v[0]-'0') - 1)
				}
			}
		case "metadata":
			var r *promapi.MetadataResult
			if r, err = fg.Metadata(ctx, "up"); err == nil && len(r.Metadata) == 1 {
				answered = strings.TrimPrefix(r.Metadata[0].Help, "upstream ")
			}
		}
		return answered, err
	}
	call(e1)
	before := ups[1].count()
	answered, err := call(e2)
	input := map[string]any{"first_call": e1, "first_upstream_on_first_call": m.name, "second_call": e2}
	cs := &explore.Case{Input: input, Key: fmt.Sprint(e1, m.name, e2), Outcome: "sequence"}
	switch {
	case err != nil:
		cs.Violate(fmt.Sprintf("sequence: healthy-upstream-not-used after=%s/%s endpoint=%s", e1, m.name, e2), fmt.Sprintf("the first upstream serves %s fine but the call failed after a %s on %s: %v", e2, m.name, e1, err), input)
	case answered != "0":
		cs.Violate(fmt.Sprintf("sequence: wrong-upstream-answered after=%s/%s endpoint=%s", e1, m.name, e2), fmt.Sprintf("%s was answered by upstream %q although the first upstream serves it fine (it answered %s with %s before)", e2, answered, e1, m.name), input)
	case ups[1].count() != before:
		cs.Violate(fmt.Sprintf("sequence: later-upstream-contacted after=%s/%s endpoint=%s", e1, m.name, e2), "the second upstream was contacted although the first one answered", input)
	}
	return cs
}

func degrade(c *explore.Chooser) *explore.Case {
	n := 1 + c.Free(maxUpstreams(), "upstreams")
	required := c.Free(2, "required") == 1
	var unav []mode
	for _, m := range modes {
		if m.unavailable && m.name != "header-timeout" {
			unav = append(unav, m)
		}
	}
	var names []string
	ups := make([]*upstream, n)
	for i := range ups {
		m := unav[c.Free(len(unav), fmt.Sprintf("mode%d", i))]
		names = append(names, m.name)
		ups[i] = newUpstream(i, m)
		defer ups[i].close()
	}
	var sb strings.Builder
	fmt.Fprintf(&sb, "prometheus \"prom\" {\n  uri = %q\n  timeout = \"200ms\"\n  required = %v\n", ups[0].uri, required)
	if n > 1 {
		var fo []string
		for _, u := range ups[1:] {
			fo = append(fo, fmt.Sprintf("%q", u.uri))
		}
		fmt.Fprintf(&sb, "  failover = [%s]\n", strings.Join(fo, ", "))
	}
	sb.WriteString("}\n")
	input := map[string]any{"upstreams": names, "required": required}
	cs := &explore.Case{Input: input, Key: fmt.Sprint(names, required), Outcome: "degraded"}
	cfg, err := pipeline.LoadConfig(sb.String())
	if err != nil {
		cs.Violate("harness:config", err.Error(), sb.String())
		return cs
	}
	gen := pipeline.Generator(cfg)
	defer gen.Stop()
	entries, crash := pipeline.Parse("rules.yml", []byte(rulesYAML), true, parser.PrometheusSchema, model.UTF8Validation)
	if crash != nil {
		panic(crash.Value)
	}
	reports, crash := pipeline.Lint(context.Background(), config.LintCommand, cfg, gen, entries)
	if crash != nil {
		cs.Violate("panic:"+crash.Site, "online checks crashed during a full outage: "+crash.Value, input)
		return cs
	}
	online := map[string]bool{}
	for _, nme := range checks.OnlineChecks {
		online[nme] = true
	}
	wantSev := checks.Warning
	if required {
		wantSev = checks.Bug
	}
	seen := map[string]int{}
	for _, r := range reports {
		if !online[r.Problem.Reporter] {
			continue
		}
		k := r.Problem.Reporter + "@" + r.Rule.Name()
		seen[k]++
		if r.Problem.Summary != "unable to run checks" {
			cs.Violate("spurious-finding-during-outage reporter="+r.Problem.Reporter, fmt.Sprintf("with every upstream unavailable %s reported %q on rule %s", r.Problem.Reporter, r.Problem.Summary, r.Rule.Name()), input)
			continue
		}
		if r.Problem.Severity != wantSev {
			cs.Violate(fmt.Sprintf("outage-severity reporter=%s required=%v got=%s", r.Problem.Reporter, required, r.Problem.Severity), fmt.Sprintf("outage reported with severity %s, expected %s", r.Problem.Severity, wantSev), input)
		}
	}
	for k, nn := range seen {
		if nn > 1 {
			cs.Violate("outage-reported-more-than-once reporter="+strings.Split(k, "@")[0], fmt.Sprintf("%s reported the outage %d times", k, nn), input)
		}
	}
	for _, must := range []string{"promql/series@A", "promql/rate@A", "promql/series@r:sum"} {
		if seen[must] == 0 {
			cs.Violate("outage-not-surfaced check="+strings.Split(must, "@")[0], "no problem tells the user that "+must+" could not run", input)
		}
	}
	return cs
}

func main() {
	explore.Main(&explore.Config{
		Property: "C15", Level: "fault_enumeration",
		Rule: "real FailoverGroup over real net/http against real local listeners: every assignment of 10 fault modes (healthy, connection refused, 500 text, 502 html, 503 JSON server_error, 400 bad_data, 422 execution, 404, 200 truncated JSON, response-header timeout) to 1..2 upstreams (thorough 3) x 5 endpoints (query, query_range, config, flags, metadata); oracle: upstream i is contacted iff all earlier ones are unavailable, the first reachable upstream's payload or query-caused error comes back unchanged and classified, a full outage is an unavailability error; space 'degrade': every all-unavailable assignment x required: the real online checks report exactly one 'unable to run checks' problem each with Warning (Bug when required) and no finding about the rule. distinct = (endpoint, assignment); space sequences: two calls on one group, the first upstream misbehaving (8 modes) on the first call's endpoint only, every ordered pair of different endpoints: the second call must be answered by the first upstream and must not touch the second",
		Assumptions: []string{
			"404 on config/flags/metadata is a permissive cell (pint treats 'API unsupported' like unavailability)",
			"the only timed element is the client's own deadline (50 ms + 1 s); no wall-clock oracle",
			"dial timeouts (unroutable address) cannot be produced in this sandbox; response-header timeouts stand in for timeouts",
		},
		Spaces: []*explore.Space{
			{Name: "failover", Body: failover, Bound: func(string) int { return -1 }, Setup: func(t string) { tier = t }},
			{Name: "degrade", Body: degrade, Bound: func(string) int { return -1 }, Setup: func(t string) { tier = t }},
			{Name: "sequences", Body: sequences, Bound: func(string) int { return -1 }, Setup: func(t string) { tier = t }},
		},
		BudgetS: func(t string) int {
			if t == "thorough" {
				return 1800
			}
			return 400
		},
	})
}
