// c18: an accepted configuration never crashes a later lint run. DESIGN.md §2 C18.
package main

import (
	"context"
	"fmt"
	"os"
	"path/filepath"
	"strings"

	"github.com/prometheus/common/model"

	"github.com/cloudflare/pint/internal/config"
	"github.com/cloudflare/pint/internal/discovery"
	"github.com/cloudflare/pint/internal/parser"
	"github.com/cloudflare/pint/verifharness/explore"
	"github.com/cloudflare/pint/verifharness/lib/pipeline"
)

// value classes
var (
	regexVals = []string{"foo.*", "(", "[a-", "a|b", "", `a\\`, "{{ $alert }}", "{{ $alert }}x", "{{ $labels.team }}", "{{ $for }}", "{{ $nope }}", "{{ $alert", "{{ $labels.team }}.+", "(?i)x", "{{ $record }}", "{{ $annotations.summary }}", "^anchored$", "{{ .Alert }}"}
	durVals   = []string{"5m", "abc", "-5m", "0", "", "1y", "5", "0s", "999999999h"}
	sevVals   = []string{"bug", "warning", "info", "fatal", "bogus", ""}
	intVals   = []string{"10", "0", "-1"}
	forVals   = []string{"> 1m", "5m", ">> 1m", "> abc", "", "=", "!= 0"}
)

type site struct {
	name     string
	variants []string // variant 0 is the default (may be "" = block absent)
}

func q(s string) string { return fmt.Sprintf("%q", s) }

func withVals(prefixFmt string, vals []string) (out []string) {
	for _, v := range vals {
		out = append(out, fmt.Sprintf(prefixFmt, q(v)))
	}
	return out
}

func sites() []site {
	var ss []site
	add := func(name string, def string, alts ...[]string) {
		v := []string{def}
		for _, a := range alts {
			v = append(v, a...)
		}
		ss = append(ss, site{name, v})
	}
	// top-level blocks
	add("parser", "", withVals("parser {\n  relaxed = [%s]\n}\n", regexVals[:8]), withVals("parser {\n  include = [%s]\n}\n", regexVals[:6]), withVals("parser {\n  exclude = [%s]\n}\n", regexVals[:6]),
		[]string{"parser {\n  schema = \"thanos\"\n}\n", "parser {\n  schema = \"bogus\"\n}\n", "parser {\n  names = \"legacy\"\n}\n", "parser {\n  names = \"bogus\"\n}\n"})
	add("owners", "", withVals("owners {\n  allowed = [%s]\n}\n", regexVals[:8]))
	add("ci", "", withVals("ci {\n  baseBranch = %s\n}\n", []string{"main", ""}), []string{"ci {\n  maxCommits = 0\n}\n", "ci {\n  maxCommits = -1\n}\n"})
	add("checks", "", []string{"checks {\n  disabled = [\"promql/rate\"]\n}\n", "checks {\n  disabled = [\"bogus\"]\n}\n", "checks {\n  enabled = [\"promql/syntax\"]\n}\n", "checks {\n  enabled = [\"bogus/x\"]\n}\n", "checks {\n  enabled = []\n}\n"})
	add("check-series", "", withVals("check \"promql/series\" {\n  lookbackRange = %s\n}\n", durVals[:6]), withVals("check \"promql/series\" {\n  lookbackStep = %s\n}\n", durVals[:5]),
		withVals("check \"promql/series\" {\n  ignoreMetrics = [%s]\n}\n", regexVals[:6]), withVals("check \"promql/series\" {\n  fallbackTimeout = %s\n}\n", durVals[:4]),
		[]string{"check \"promql/series\" {\n  ignoreLabelsValue = { \"foo\" = [\"bar\"] }\n}\n", "check \"promql/series\" {\n  ignoreLabelsValue = { \"foo{\" = [\"bar\"] }\n}\n", "check \"promql/series\" {\n  bogus = 1\n}\n", "check \"bogus/name\" {\n}\n"})
	add("check-regexp", "", []string{"check \"promql/regexp\" {\n  smelly = false\n}\n", "check \"promql/regexp\" {\n  smelly = \"x\"\n}\n"})
	// discovery: the template fields are rendered with what the directory scan finds; the scratch directory holds
	// files whose names carry regexp and template metacharacters
	disc := func(match, tpl string) string {
		return fmt.Sprintf("discovery {\n  filepath {\n    directory = %q\n    match = %q\n    template {\n%s    }\n  }\n}\n", discDir, match, tpl)
	}
	nameURI := "      name = \"p-{{ $name }}\"\n      uri = \"http://127.0.0.1:1/{{ $name }}\"\n"
	add("discovery", "", []string{
		disc("(?P<name>.+)\\.yml", nameURI),
		disc("(?P<name>.+)\\.yml", nameURI+"      include = [\"{{ $name }}/.*\"]\n"),
		disc("(?P<name>.+)\\.yml", nameURI+"      exclude = [\"{{ $name }}\"]\n"),
		disc("(?P<name>.+)\\.yml", nameURI+"      include = [\"static/.*\"]\n      exclude = [\"x(\"]\n"),
		disc("(?P<name>.+)\\.yml", nameURI+"      tags = [\"{{ $name }}\"]\n      failover = [\"http://{{ $name }}\"]\n"),
		disc("(?P<name>.+)\\.yml", nameURI+"      headers = { \"X-{{ $name }}\" = \"{{ $name }}\" }\n"),
		disc("(?P<name>.+)\\.yml", "      name = \"{{ $nosuch }}\"\n      uri = \"http://x\"\n"),
		disc("(?P<name>.+\\.yml", nameURI),
		disc("(.+)\\.yml", "      name = \"fixed\"\n      uri = \"{{ $name }}\"\n"),
	})
	// rule block pieces (assembled into one rule {} block)
	for _, kind := range []string{"match", "ignore"} {
		var alts []string
		for _, f := range []string{"path", "name"} {
			alts = append(alts, withVals("  "+kind+" {\n    "+f+" = %s\n  }\n", regexVals)...)
		}
		alts = append(alts, withVals("  "+kind+" {\n    kind = %s\n  }\n", []string{"alerting", "recording", "bogus", ""})...)
		alts = append(alts, withVals("  "+kind+" {\n    for = %s\n  }\n", forVals)...)
		alts = append(alts, withVals("  "+kind+" {\n    keep_firing_for = %s\n  }\n", forVals)...)
		alts = append(alts, withVals("  "+kind+" {\n    command = %s\n  }\n", []string{"lint", "bogus"})...)
		alts = append(alts, withVals("  "+kind+" {\n    state = [%s]\n  }\n", []string{"any", "bogus"})...)
		for _, v := range regexVals[:12] {
			alts = append(alts, fmt.Sprintf("  %s {\n    label %s {\n      value = \".*\"\n    }\n  }\n", kind, q(v)))
			alts = append(alts, fmt.Sprintf("  %s {\n    label \"team\" {\n      value = %s\n    }\n  }\n", kind, q(v)))
			alts = append(alts, fmt.Sprintf("  %s {\n    annotation %s {\n      value = %s\n    }\n  }\n", kind, q(v), q(v)))
		}
		alts = append(alts, "  "+kind+" {\n  }\n")
		add("rule."+kind, "", alts)
	}
	add("rule.enable", "", []string{"  enable = [\"promql/rate\"]\n", "  enable = [\"bogus\"]\n", "  disable = [\"bogus\"]\n", "  disable = [\"rule/label\"]\n", "  locked = true\n"})
	{
		var alts []string
		for _, v := range regexVals {
			alts = append(alts, fmt.Sprintf("  aggregate %s {\n    keep = [\"job\"]\n  }\n", q(v)))
		}
		alts = append(alts, withVals("  aggregate \".+\" {\n    keep = [\"job\"]\n    severity = %s\n  }\n", sevVals[3:])...)
		alts = append(alts, "  aggregate \".+\" {\n  }\n", "  aggregate \".+\" {\n    keep = [\"job\"]\n    strip = [\"job\"]\n  }\n", "  aggregate \".+\" {\n    strip = [\"\"]\n  }\n")
		add("rule.aggregate", "  aggregate \".+\" {\n    keep = [\"job\"]\n  }\n", alts)
	}
	for _, blk := range []string{"annotation", "label"} {
		var alts []string
		key := "summary"
		if blk == "label" {
			key = "team"
		}
		for _, v := range regexVals {
			alts = append(alts, fmt.Sprintf("  %s %s {\n    required = true\n  }\n", blk, q(v)))
			alts = append(alts, fmt.Sprintf("  %s %q {\n    value = %s\n  }\n", blk, key, q(v)))
			alts = append(alts, fmt.Sprintf("  %s %q {\n    token = %s\n    value = \".+\"\n  }\n", blk, key, q(v)))
			alts = append(alts, fmt.Sprintf("  %s %q {\n    token = \"\\\\w+\"\n    value = %s\n  }\n", blk, key, q(v)))
		}
		alts = append(alts, fmt.Sprintf("  %s %q {\n    values = [\"a\", \"b\"]\n    value = \"a\"\n  }\n", blk, key), fmt.Sprintf("  %s %q {\n    values = [\"a(\"]\n  }\n", blk, key))
		alts = append(alts, withVals("  "+blk+" \""+key+"\" {\n    required = true\n    severity = %s\n  }\n", sevVals[3:])...)
		add("rule."+blk, fmt.Sprintf("  %s %q {\n    required = true\n  }\n", blk, key), alts)
	}
	for _, blk := range []string{"for", "keep_firing_for"} {
		var alts []string
		alts = append(alts, withVals("  "+blk+" {\n    min = %s\n  }\n", durVals)...)
		alts = append(alts, withVals("  "+blk+" {\n    max = %s\n  }\n", durVals)...)
		alts = append(alts, "  "+blk+" {\n    min = \"1h\"\n    max = \"1m\"\n  }\n", "  "+blk+" {\n  }\n")
		alts = append(alts, withVals("  "+blk+" {\n    min = \"1m\"\n    severity = %s\n  }\n", sevVals[3:])...)
		add("rule."+blk, "  "+blk+" {\n    min = \"1m\"\n  }\n", alts)
	}
	{
		var alts []string
		for _, v := range regexVals {
			alts = append(alts, fmt.Sprintf("  reject %s {\n    label_keys = true\n    label_values = true\n    annotation_keys = true\n    annotation_values = true\n  }\n", q(v)))
		}
		alts = append(alts, "  reject \"bad\" {\n  }\n")
		alts = append(alts, withVals("  reject \"bad\" {\n    label_values = true\n    severity = %s\n  }\n", sevVals[3:])...)
		add("rule.reject", "  reject \"bad.*\" {\n    label_values = true\n  }\n", alts)
	}
	{
		var alts []string
		for _, v := range regexVals {
			alts = append(alts, fmt.Sprintf("  name %s {\n  }\n", q(v)))
		}
		alts = append(alts, withVals("  name \".+\" {\n    severity = %s\n  }\n", sevVals[3:])...)
		add("rule.name", "  name \"[A-Za-z].*\" {\n  }\n", alts)
	}
	{
		var alts []string
		for _, v := range regexVals {
			alts = append(alts, fmt.Sprintf("  link %s {\n    uri = \"http://127.0.0.1:1/$1\"\n    timeout = \"1s\"\n  }\n", q(v)))
		}
		alts = append(alts, withVals("  link \"http://(.+)\" {\n    timeout = %s\n  }\n", durVals)...)
		alts = append(alts, "  link \"http://(.+)\" {\n    uri = \"::bad uri\"\n  }\n", "  link \"http://(.+)\" {\n    uri = \"$2\"\n    headers = { \"X\" = \"y\" }\n  }\n")
		add("rule.link", "", alts)
	}
	add("rule.range_query", "", withVals("  range_query {\n    max = %s\n  }\n", durVals), withVals("  range_query {\n    max = \"1d\"\n    severity = %s\n  }\n", sevVals[3:]))
	add("rule.report", "", withVals("  report {\n    comment = \"x\"\n    severity = %s\n  }\n", sevVals), []string{"  report {\n    comment = \"\"\n    severity = \"bug\"\n  }\n"})
	// a second, valid block of a repeatable type after the one chosen above: every block must be validated, not
	// only the last of its type
	add("rule.second-block", "", []string{
		"  aggregate \".+\" {\n    strip = [\"instance\"]\n  }\n",
		"  annotation \"second\" {\n    required = true\n  }\n",
		"  label \"second\" {\n    required = true\n  }\n",
		"  reject \"second.*\" {\n    label_values = true\n  }\n",
		"  name \".+\" {\n  }\n",
		"  link \"https://second/.+\" {\n  }\n",
	})
	return ss
}

var allSites = sites()

// rule universe with regexp / template metacharacters in names, labels and annotations
const universeYAML = `groups:
- name: g
  labels:
    team: "gr(oup"
  rules:
  - alert: Plain
    expr: up == 0
    for: 5m
    labels:
      team: sre
    annotations:
      summary: http://example.com/x
  - alert: "Foo("
    expr: sum(up) by (instance) == 0
    for: 1m
    keep_firing_for: 1m
    labels:
      team: "a(b"
      "lab[": "a*"
    annotations:
      summary: "{{ $labels.job }} a[ http://a(b"
      "ann(": "x"
  - alert: "a*"
    expr: up == 0
    labels:
      team: 'a\'
      other: "{{"
    annotations:
      summary: "a|b"
  - alert: "{{ x"
    expr: up == 0
    labels:
      team: ""
  - alert: "[["
    expr: sum(rate(foo[2d])) > 0
  - record: "rec(ord"
    expr: sum(up) without (job)
  - record: plain:record
    expr: sum(up) by (job)
    labels:
      team: "x)("
  - record: inherits:group
    expr: up
`

var (
	entries []discovery.Entry
	discDir = func() string {
		d := filepath.Join(os.TempDir(), "verif-c18-disc")
		if _, err := os.Stat("/dev/shm"); err == nil {
			d = "/dev/shm/verif-c18-disc"
		}
		os.MkdirAll(d, 0o755)
		for _, n := range []string{"plain.yml", "dc(2.yml", "a[b.yml", "x+y.yml", "sp ace.yml", "br{ace.yml", "back\\slash.yml", "qu\"ote.yml", "tpl{{.yml"} {
			os.WriteFile(filepath.Join(d, n), []byte("groups: []\n"), 0o644)
		}
		return d
	}()
)

func setup(string) {
	var crash *pipeline.Crash
	entries, crash = pipeline.Parse("rules.yml", []byte(universeYAML), true, parser.PrometheusSchema, model.UTF8Validation)
	if crash != nil {
		panic(crash.Value)
	}
	n := 0
	for _, e := range entries {
		if e.PathError == nil && e.Rule.Error.Err == nil {
			n++
		}
	}
	if n < 8 {
		panic(fmt.Sprintf("rule universe does not parse: only %d rules", n))
	}
}

func body(c *explore.Chooser) *explore.Case {
	var top, rule strings.Builder
	var devs []string
	for _, s := range allSites {
		nv := len(s.variants)
		if len(devs) >= 2 && nv > 3 {
			// thorough (bound 3): a third non-default site ranges over its first two alternatives only, which
			// keeps the triple interactions a complete space instead of a time-capped sample of ~10^8 configs
			nv = 3
		}
		k := c.Choose(nv, s.name)
		if k != 0 {
			devs = append(devs, fmt.Sprintf("%s#%d", s.name, k))
		}
		if strings.HasPrefix(s.name, "rule.") {
			rule.WriteString(s.variants[k])
		} else {
			top.WriteString(s.variants[k])
		}
	}
	text := top.String() + "rule {\n" + rule.String() + "}\n"
	cs := &explore.Case{Input: map[string]any{"deviations": devs, "config": text}, Key: text, Trivial: len(devs) == 0}
	cfg, err := pipeline.LoadConfig(text)
	if err != nil {
		cs.Outcome = "rejected"
		return cs
	}
	var gen *config.PrometheusGenerator
	func() {
		defer func() {
			if p := recover(); p != nil {
				cs.Violate("panic:generator", fmt.Sprintf("accepted config panics while setting up servers: %v", p), text)
			}
		}()
		gen = pipeline.Generator(cfg)
	}()
	if gen == nil {
		return cs
	}
	defer gen.Stop()
	if strings.Contains(text, "discovery {") {
		var derr error
		func() {
			defer func() {
				if p := recover(); p != nil {
					cs.Violate("panic:discovery", fmt.Sprintf("accepted config panics while discovering Prometheus servers: %v", p), map[string]any{"config": text, "directory_listing": "plain.yml dc(2.yml a[b.yml x+y.yml 'sp ace.yml' br{ace.yml back\\slash.yml qu\"ote.yml tpl{{.yml"})
				}
			}()
			// on a generator of its own: the lint runs below must not talk to discovered (unreachable) servers
			dg := pipeline.Generator(cfg)
			defer dg.Stop()
			derr = dg.GenerateDynamic(context.Background())
		}()
		if len(cs.Viol) > 0 {
			cs.Outcome = "accepted+crash"
			return cs
		}
		if derr != nil {
			cs.Outcome = "accepted+discovery-error"
			return cs
		}
	}
	for _, cmd := range []config.ContextCommandVal{config.LintCommand, config.CICommand} {
		es := entries
		if cmd == config.CICommand {
			es = append([]discovery.Entry(nil), entries...)
			for i := range es {
				es[i].State = discovery.Modified
			}
		}
		_, crash := pipeline.Lint(context.Background(), cmd, cfg, gen, es)
		if crash != nil {
			cs.Violate("panic:"+crash.Site, "config accepted by config.Load crashes the lint run: "+crash.Value, map[string]any{"config": text, "stack": crash.Stack})
			cs.Outcome = "accepted+crash"
			return cs
		}
	}
	cs.Outcome = "accepted+ok"
	return cs
}

func main() {
	explore.Main(&explore.Config{
		Property: "C18", Level: "exploration",
		Rule:        fmt.Sprintf("config assembled from %d option sites (parser, owners, ci, checks, check{} settings, discovery{filepath{template{}}} rendered against a directory whose file names carry metacharacters, rule{match,ignore,enable/disable/locked,aggregate,annotation,label,for,keep_firing_for,reject,name,link,range_query,report}) each with its catalogue of value classes (valid, invalid regexp, templated with every variable, unterminated template, template expanding to an invalid regexp, empty, invalid/negative/huge durations, unknown severities/names/states); all configs with <=2 non-default sites (thorough: also every config with 3 non-default sites whose third site takes one of its first two alternatives) loaded by config.Load; accepted configs are applied (lint and ci command) to a rule universe whose names, labels and annotations carry regexp and template metacharacters. Violation = accepted and panics", len(allSites)),
		Assumptions: []string{"checks run through the sequential seam: a panic in Check() kills the shipped command because scanWorker does not recover", "online checks (cost, alerts, prometheus{}) are outside this space"},
		Spaces: []*explore.Space{{Name: "configs", Body: body, Setup: setup, Bound: func(t string) int {
			if t == "thorough" {
				return 3
			}
			return 2
		}}},
		BudgetS: func(t string) int {
			if t == "thorough" {
				return 3000
			}
			return 900
		},
		Finish: func(t string, agg *explore.Aggregate) ([]explore.Violation, string) {
			if agg.Outcomes["rejected"] < 100 || agg.Outcomes["accepted+ok"] < 100 {
				return nil, fmt.Sprintf("vacuity guard: outcomes %v", agg.Outcomes)
			}
			return nil, ""
		},
	})
}
