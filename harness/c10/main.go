// c10: text excluded by ignore comments cannot influence the result. DESIGN.md §2 C10.
//
// Layer (a) "machine": explicit-state BFS over the real ContentReader masking machine jointly with a
// reference exclusion tracker; on every (state, line class) transition the non-interference conditions are
// checked. Layer (b) "e2e": all block sequences up to n, two payloads per excluded position, through the
// real parser and checks.
package main

import (
	"context"
	"fmt"
	"sort"
	"strings"

	"github.com/prometheus/common/model"

	"github.com/cloudflare/pint/internal/comments"
	"github.com/cloudflare/pint/internal/config"
	"github.com/cloudflare/pint/internal/parser"
	"github.com/cloudflare/pint/verifharness/explore"
	"github.com/cloudflare/pint/verifharness/lib/pipeline"
)

// ---------- layer (a) ----------

type lineClass struct {
	name string
	text string
	kind string // "", "file", "line", "next", "begin", "end" : ignore comment kind on this line
}

var classes = buildClasses()

func buildClasses() (out []lineClass) {
	type cm struct{ name, text, kind string }
	cms := []cm{
		{"none", "", ""},
		{"plain-comment", "# just a comment", ""},
		{"ignore/file", "# pint ignore/file", "file"},
		{"ignore/line", "# pint ignore/line", "line"},
		{"ignore/next-line", "# pint ignore/next-line", "next"},
		{"ignore/begin", "# pint ignore/begin", "begin"},
		{"ignore/end", "# pint ignore/end", "end"},
		{"file/owner", "# pint file/owner bob", ""},
		{"rule/owner", "# pint rule/owner bob", ""},
		{"file/disable", "# pint file/disable promql/regexp", ""},
		{"disable", "# pint disable promql/regexp", ""},
		{"file/snooze", "# pint file/snooze 2099-01-01 promql/regexp", ""},
		{"snooze", "# pint snooze 2099-01-01 promql/regexp", ""},
		{"rule/set", "# pint rule/set promql/series min-age 1d", ""},
		{"invalid-suffix", "# pint ignore/line extra", ""},
		{"invalid-missing", "# pint file/disable", ""},
		{"unknown-type", "# pint bogus", ""},
	}
	for _, c := range cms {
		if c.text == "" {
			out = append(out, lineClass{"text-only", "foo: bar", ""})
			out = append(out, lineClass{"empty", "", ""})
			out = append(out, lineClass{"text-with-tabs", "\tfoo:\tbar", ""})
			out = append(out, lineClass{"text-with-cr", "foo: bar\rbaz: 1", ""})
			out = append(out, lineClass{"text-crlf", "foo: bar\r", ""})
			continue
		}
		out = append(out, lineClass{c.name + "@0", c.text, c.kind})
		out = append(out, lineClass{c.name + "@text", "foo: bar " + c.text, c.kind})
		// multi-byte text in front of the comment: byte offsets and character columns differ
		out = append(out, lineClass{c.name + "@utf8text", "summary: \"ąęść żółw\" [ " + c.text, c.kind})
		if c.kind == "line" || c.kind == "" && c.name == "disable" {
			out = append(out, lineClass{c.name + "@tabtext", "\tfoo:\tbar\r " + c.text, c.kind})
		}
	}
	return out
}

// reference exclusion tracker, written from docs/ignoring.md
type refState int

const (
	refNormal refState = iota
	refNext            // the coming line is excluded (ignore/next-line)
	refBegin           // inside ignore/begin .. ignore/end
	refFile            // after ignore/file
)

func (s refState) String() string {
	return [...]string{"normal", "next-line", "in-begin", "after-file"}[s]
}

// step returns whether the whole line is excluded content, whether only the text before its comment is
// excluded (ignore/line), and the next reference state.
func (s refState) step(c lineClass) (wholeExcluded, prefixExcluded bool, next refState) {
	switch s {
	case refFile:
		return true, false, refFile
	case refNext:
		return true, false, refNormal
	case refBegin:
		if c.kind == "end" {
			return false, false, refNormal
		}
		return true, false, refBegin
	}
	switch c.kind {
	case "file":
		return false, true, refFile
	case "line":
		return false, true, refNormal
	case "next":
		return false, false, refNext
	case "begin":
		return false, false, refBegin
	}
	return false, false, refNormal
}

type mstate struct {
	pint parser.VerifMaskState
	ref  refState
}

func runPath(path []int) (out []string, st parser.VerifMaskState, ncomments, ndiags int) {
	var sb strings.Builder
	for _, ci := range path {
		sb.WriteString(classes[ci].text)
		sb.WriteByte('\n')
	}
	b, st, cs, ds, _ := parser.VerifMask(strings.NewReader(sb.String()))
	return strings.Split(strings.TrimSuffix(string(b), "\n"), "\n"), st, len(cs), len(ds)
}

// machine is one execution = the whole BFS (it is tiny); reported as states/transitions.
func machine(c *explore.Chooser) *explore.Case {
	cs := &explore.Case{Input: "BFS over (ContentReader masking state, reference state) x line classes", Outcome: "bfs"}
	type node struct {
		st   mstate
		path []int
	}
	seen := map[mstate][]int{}
	start := mstate{ref: refNormal}
	seen[start] = nil
	queue := []node{{start, nil}}
	blankOf := func(s string) bool { return strings.Trim(s, " ") == "" } // spaces only: tabs and CRs are YAML-significant
	for len(queue) > 0 {
		n := queue[0]
		queue = queue[1:]
		cs.AddToSet("states", fmt.Sprintf("%+v/%s", n.st.pint, n.st.ref))
		_, _, baseComments, baseDiags := runPath(n.path)
		// canonical excluded payload in this state: a plain text line
		var canonNext parser.VerifMaskState
		{
			p := append(append([]int{}, n.path...), 0) // class 0 = text-only
			_, canonNext, _, _ = runPath(p)
		}
		for ci, cl := range classes {
			p := append(append([]int{}, n.path...), ci)
			out, pst, nc, nd := runPath(p)
			cs.Count("transitions", 1)
			whole, prefix, rnext := n.st.ref.step(cl)
			got := out[len(out)-1]
			if len(got) != len(cl.text) || len(out) != len(p) {
				cs.Violate("machine: line structure not preserved", fmt.Sprintf("state %s, line class %s: masked output %q does not keep the line's length/line count", n.st.ref, cl.name, got), pathText(p))
			}
			where := fmt.Sprintf("in state %s (pint %+v), line %q", n.st.ref, n.st.pint, cl.text)
			nviol := len(cs.Viol)
			if whole {
				// the text part must be gone; a retained YAML comment is harmless unless it is a pint
				// control comment (yaml.v3 attaches comments to neighbouring nodes and pint reads them);
				// after ignore/file no rule survives, so retained comments cannot matter there
				textPart, commentPart := got, ""
				if i := strings.Index(got, "#"); i >= 0 {
					textPart, commentPart = got[:i], got[i:]
				}
				if !blankOf(textPart) {
					cs.Violate(fmt.Sprintf("machine: excluded text not blanked state=%s class=%s", n.st.ref, cl.name), where+" is excluded content but reaches the YAML decoder as "+fmt.Sprintf("%q", got), pathText(p))
				} else if n.st.ref != refFile && hasRuleComment(commentPart) {
					cs.Violate(fmt.Sprintf("machine: pint comment on an excluded line survives state=%s class=%s", n.st.ref, kindOf(cl)), where+" is excluded content but its pint control comment is left in place for the YAML decoder: "+fmt.Sprintf("%q", got), pathText(p))
				}
				if pst != canonNext {
					cs.Violate(fmt.Sprintf("machine: excluded line changes masking state state=%s class=%s", n.st.ref, kindOf(cl)), fmt.Sprintf("%s is excluded content, yet the masking state afterwards is %+v instead of %+v (what any other excluded text gives)", where, pst, canonNext), pathText(p))
				}
				if nc != baseComments || nd != baseDiags {
					cs.Violate(fmt.Sprintf("machine: excluded line recorded a comment state=%s class=%s", n.st.ref, kindOf(cl)), where+" is excluded content, yet the reader recorded a comment/diagnostic from it", pathText(p))
				}
			}
			if prefix {
				if i := strings.Index(cl.text, "#"); i > 0 && !blankOf(got[:i]) {
					cs.Violate("machine: text before ignore comment not blanked class="+cl.name, where+" keeps the text before the comment: "+fmt.Sprintf("%q", got), pathText(p))
				}
			}
			if !whole && !prefix && got != cl.text {
				cs.Violate("machine: ordinary line altered class="+cl.name, where+" is not excluded but was changed to "+fmt.Sprintf("%q", got), pathText(p))
			}
			if len(cs.Viol) > nviol {
				continue // do not explore beyond a violating transition: what follows is a consequence
			}
			next := mstate{pst, rnext}
			if _, ok := seen[next]; !ok {
				seen[next] = p
				queue = append(queue, node{next, p})
			}
		}
	}
	cs.Count("states", int64(len(seen)))
	// unterminated last line: same masking, no trailing newline required
	for ci, cl := range classes {
		b, _, _, _, _ := parser.VerifMask(strings.NewReader("# pint ignore/next-line\n" + cl.text))
		parts := strings.Split(string(b), "\n")
		last := parts[len(parts)-1]
		if i := strings.Index(last, "#"); i >= 0 && !hasRuleComment(last[i:]) {
			last = last[:i] + strings.Repeat(" ", len(last)-i)
		}
		if len(parts) != 2 || strings.Trim(last, " ") != "" || len(parts[1]) != len(cl.text) {
			cs.Violate("machine: unterminated excluded last line class="+cl.name, fmt.Sprintf("excluded unterminated last line %q came out as %q", cl.text, parts[len(parts)-1]), ci)
		}
		cs.Count("transitions", 1)
	}
	return cs
}

// hasRuleComment: the text carries a pint comment of a type pint reads back from YAML node comments
// (rule/owner, disable, snooze, rule/set); file-level and ignore comments are only ever read by the
// line reader, whose recordings are checked separately.
func hasRuleComment(s string) bool {
	for _, c := range comments.Parse(1, s) {
		if comments.IsRuleComment(c.Type) {
			return true
		}
	}
	return false
}

func kindOf(c lineClass) string { return strings.SplitN(c.name, "@", 2)[0] }

func pathText(p []int) string {
	var sb strings.Builder
	for _, ci := range p {
		sb.WriteString(classes[ci].text + "\n")
	}
	return sb.String()
}

// ---------- layer (b) ----------

var (
	cfg config.Config
	gen *config.PrometheusGenerator
)

var tier string

func setup(t string) {
	tier = t
	cfg = pipeline.DefaultConfig()
	gen = pipeline.Generator(cfg)
}

// payload lines for excluded positions
var payloads = []string{
	"{% set x = 1 %}",
	"  - : [ broken",
	"- record: evil",
	"# pint file/disable promql/regexp",
	"# pint ignore/begin",
	"# pint ignore/end",
	"# pint ignore/next-line",
	"# pint ignore/line",
	"# pint ignore/file",
	"# pint file/owner bob",
	"# pint disable promql/regexp",
	"# pint file/snooze 2099-01-01 promql/regexp",
	"# pint ignore/line extra",
	"{% raw %} # pint file/disable promql/regexp",
	"{% raw %} # pint ignore/begin",
	"  expr: up{job=~\"y\"}",
	"\t- : [ broken",
	"{% a %}\r{% b %}",
	"\tfoo:\tbar # pint disable promql/regexp",
	"summary: \"ąęść żółw\" [ # pint ignore/begin",
	"żółw: [ { # pint disable promql/regexp",
	"  - record: evil # pint ignore/end",
	"{% endraw %} # pint ignore/end",
}

// payloads usable before a trailing "# pint ignore/line" (no '#')
var inlinePayloads = []string{"{% set x = 1 %}", "  - : [ broken", "- record: evil", "  expr: up", "\tx:\ty", "{% a %}\r{% b %}", "summary: \"ąęść żółw\" [", "żółw: [ {"}

type obs struct {
	Rules   []string
	Reports []string
}

// preludes: files parsed in the same process right before the file under test. Exclusion state must not leak
// from one file into the next, whatever state the previous file ended in.
var preludes = []string{
	"",
	"groups:\n- name: p\n  rules:\n  - record: p:a\n    expr: up\n# pint ignore/begin\n  - record: p:b\n    expr: up\n", // ends inside an unterminated block
	"groups:\n- name: p\n  rules:\n  - record: p:a\n    expr: up\n# pint ignore/file\n  - record: p:b\n",                // ends after ignore/file
	"groups:\n- name: p\n  rules:\n  - record: p:a\n    expr: up\n# pint ignore/next-line",                              // ends right after ignore/next-line
	"groups:\n- name: p\n  rules:\n  - record: p:a\n    expr: up\n# pint ignore/begin\n# pint ignore/next-line",         // both pending
}

var prelude int

func observe(content string, shiftFrom, shift int) (o obs, crashed string) {
	if prelude > 0 {
		pipeline.Parse("prelude.yml", []byte(preludes[prelude]), false, parser.PrometheusSchema, model.UTF8Validation)
	}
	entries, crash := pipeline.Parse("rules.yml", []byte(content), false, parser.PrometheusSchema, model.UTF8Validation)
	if crash != nil {
		return o, crash.Site
	}
	adj := func(l int) int {
		if l >= shiftFrom {
			return l + shift
		}
		return l
	}
	for _, e := range entries {
		if e.PathError != nil {
			o.Rules = append(o.Rules, "PATHERROR "+e.PathError.Error())
			continue
		}
		s := fmt.Sprintf("%s %s lines=%d-%d err=%v disabled=%v owner=%s", e.Rule.Type(), e.Rule.Name(), adj(e.Rule.Lines.First), adj(e.Rule.Lines.Last), e.Rule.Error.Err, e.DisabledChecks, e.Owner)
		for _, f := range pipeline.Fields(e.Rule) {
			s += fmt.Sprintf(" %s=%q@", f.Name, f.Node.Value)
			for _, p := range f.Node.Pos {
				s += fmt.Sprintf("%d:%d-%d,", adj(p.Line), p.FirstColumn, p.LastColumn)
			}
		}
		for _, c := range e.Rule.Comments {
			s += " comment=" + c.Value.String()
		}
		o.Rules = append(o.Rules, s)
	}
	reports, crash := pipeline.Lint(context.Background(), config.LintCommand, cfg, gen, entries)
	if crash != nil {
		return o, crash.Site
	}
	for _, r := range reports {
		o.Reports = append(o.Reports, fmt.Sprintf("%s %s lines=%d-%d %s", r.Problem.Reporter, r.Problem.Severity, adj(r.Problem.Lines.First), adj(r.Problem.Lines.Last), r.Problem.Summary))
	}
	sort.Strings(o.Reports)
	return o, ""
}

var ruleBlocks = []string{
	"- record: r%d\n  expr: up{job=~\"x\"}\n",
	// a rule with control comments of its own directly above it: they must survive an excluded block placed right before them
	"# pint disable promql/regexp\n# pint rule/owner bob\n- record: c%d\n  expr: up{job=~\"x\"}\n",
	"- alert: A%d\n  expr: up == 0\n  labels:\n    severity: page\n",
}

var forms = []string{"next-line", "line", "begin-end-1", "begin-end-2", "file"}

// e2e: a file is a sequence of blocks; every excluded position takes two payloads.
func e2e(c *explore.Chooser) *explore.Case {
	maxBlocks, maxExcluded := 3, 1
	if tier == "thorough" {
		maxBlocks, maxExcluded = 4, 2
	}
	n := 1 + c.Free(maxBlocks, "blocks")
	prelude = c.Free(len(preludes), "file-parsed-before")
	var partsA, partsB, partsNone []string
	var desc []string
	nrules := 0
	excluded := 0
	shiftFrom, shift := 0, 0
	lineNo := 1
	for i := 0; i < n; i++ {
		kind := c.Free(1+len(forms), fmt.Sprintf("b%d.kind", i))
		if kind == 0 {
			rb := fmt.Sprintf(ruleBlocks[nrules%len(ruleBlocks)], nrules)
			nrules++
			partsA, partsB, partsNone = append(partsA, rb), append(partsB, rb), append(partsNone, rb)
			lineNo += strings.Count(rb, "\n")
			desc = append(desc, "rule")
			continue
		}
		if excluded >= maxExcluded {
			return &explore.Case{Skip: true} // quick: one excluded block per file; thorough: two (A/B comparison only)
		}
		excluded++
		second := excluded == 2
		form := forms[kind-1]
		pick := func(tag string, inline bool) (string, string) {
			l := payloads
			if inline {
				l = inlinePayloads
			}
			a := c.Free(len(l), tag+".A")
			if second { // the second excluded block of a file pairs every payload with its successor only
				return l[a], l[(a+1)%len(l)]
			}
			b := c.Free(len(l), tag+".B")
			return l[a], l[b]
		}
		var a, b string
		switch form {
		case "next-line":
			pa, pb := pick(fmt.Sprintf("b%d", i), false)
			a = "# pint ignore/next-line\n" + pa + "\n"
			b = "# pint ignore/next-line\n" + pb + "\n"
		case "line":
			pa, pb := pick(fmt.Sprintf("b%d", i), true)
			a = pa + " # pint ignore/line\n"
			b = pb + " # pint ignore/line\n"
		case "begin-end-1":
			pa, pb := pick(fmt.Sprintf("b%d", i), false)
			if strings.Contains(pa, "ignore/end") || strings.Contains(pb, "ignore/end") {
				return &explore.Case{Skip: true} // the terminator is not payload
			}
			a = "# pint ignore/begin\n" + pa + "\n# pint ignore/end\n"
			b = "# pint ignore/begin\n" + pb + "\n# pint ignore/end\n"
		case "begin-end-2":
			pa, pb := pick(fmt.Sprintf("b%d.l1", i), false)
			if strings.Contains(pa, "ignore/end") || strings.Contains(pb, "ignore/end") {
				return &explore.Case{Skip: true}
			}
			qa, qb := "{% endfor %}", "{% endfor %}"
			if tier == "thorough" && !second { // thorough: the second line varies too (successor pairing)
				k := c.Free(len(payloads), fmt.Sprintf("b%d.l2", i))
				qa, qb = payloads[k], payloads[(k+1)%len(payloads)]
				if strings.Contains(qa, "ignore/end") || strings.Contains(qb, "ignore/end") {
					return &explore.Case{Skip: true}
				}
			}
			a = "# pint ignore/begin\n" + pa + "\n" + qa + "\n# pint ignore/end\n"
			b = "# pint ignore/begin\n" + pb + "\n" + qb + "\n# pint ignore/end\n"
		case "file":
			if i != n-1 {
				return &explore.Case{Skip: true}
			}
			pa, pb := pick(fmt.Sprintf("b%d", i), false)
			a = "# pint ignore/file\n" + pa + "\n"
			b = "# pint ignore/file\n" + pb + "\n"
		}
		if a == b && !second {
			return &explore.Case{Skip: true}
		}
		partsA, partsB = append(partsA, a), append(partsB, b)
		if form != "file" {
			shiftFrom, shift = lineNo, strings.Count(a, "\n")
		}
		lineNo += strings.Count(a, "\n")
		desc = append(desc, form)
	}
	if nrules == 0 || excluded == 0 {
		return &explore.Case{Skip: true}
	}
	if excluded == 2 && prelude != 0 {
		return &explore.Case{Skip: true} // files with two excluded blocks (thorough) run without a prior file: keeps the tier complete
	}
	fa, fb, fnone := strings.Join(partsA, ""), strings.Join(partsB, ""), strings.Join(partsNone, "")
	input := map[string]any{"blocks": desc, "file_A": fa, "file_B": fb, "file_parsed_before": preludes[prelude]}
	cs := &explore.Case{Input: input, Key: fmt.Sprint(prelude) + fa + "\x00" + fb}
	oa, ca := observe(fa, 0, 0)
	ob, cb := observe(fb, 0, 0)
	if ca != "" || cb != "" {
		cs.Count("crashed", 1)
		cs.Outcome = "crash"
		return cs
	}
	form := ""
	for _, d := range desc {
		if d != "rule" {
			form = d
		}
	}
	if fmt.Sprint(oa) != fmt.Sprint(ob) {
		cs.Violate("e2e: payload influences result form="+form, "two excluded payloads of equal line count give different rules/positions/problems", map[string]any{"input": input, "result_A": oa, "result_B": ob})
	}
	cs.Outcome = fmt.Sprintf("%s rules=%d reports=%d", form, len(oa.Rules), len(oa.Reports))
	if form != "file" && excluded == 1 {
		on, _ := observe(fnone, shiftFrom, shift)
		if fmt.Sprint(oa) != fmt.Sprint(on) {
			cs.Violate("e2e: inserting an excluded block changes more than line numbers form="+form, "file with the excluded block differs from the file without it beyond the line shift", map[string]any{"input": input, "with_block": oa, "without_block_shifted": on, "file_without": fnone})
		}
	}
	return cs
}

func main() {
	explore.Main(&explore.Config{
		Property: "C10", Level: "model_checking",
		Rule: "(a) explicit-state BFS to closure over (real ContentReader masking state (skipAll,skipNext,autoReset,inBegin), reference exclusion state) x 48 line classes (every pint comment type incl. invalid/unknown, at offset 0, after ASCII text and after multi-byte UTF-8 text, plus plain text/comment/empty): every transition checked for non-interference (excluded line fully blanked, same next masking state as any other excluded text, nothing recorded, line structure kept); (b) all files of <=3 blocks (rule | one excluded block in each of 5 forms) x all ordered pairs of 20 payload classes (8 for the inline form; incl. non-ASCII text before a pint comment): parse+lint of payload A vs payload B, and vs the file without the block shifted by its line count, each (files with one excluded block) after parsing one of 5 earlier files in the same process (none; ending inside an unterminated block, after ignore/file, right after ignore/next-line, both); thorough: <=4 blocks, up to two excluded blocks per file (the second pairs each payload with its successor), the second line of the two-line begin/end form varies too",
		Assumptions: []string{
			"reference exclusion semantics from docs/ignoring.md: ignore/line excludes the text before the comment, ignore/next-line the whole next line, begin/end the lines strictly between, ignore/file everything after",
			"traces_validated_against_impl: the model IS driven through the real ContentReader (every transition replays the shortest path on a fresh reader), so every explored transition is an implementation trace",
		},
		Spaces: []*explore.Space{
			{Name: "machine", Body: machine, Bound: func(string) int { return -1 }},
			{Name: "e2e", Body: e2e, Setup: setup, Bound: func(string) int { return -1 }},
		},
		BudgetS: func(t string) int {
			if t == "thorough" {
				return 2700
			}
			return 600
		},
		Extra: func(tier string, agg *explore.Aggregate) map[string]any {
			return map[string]any{"traces_validated_against_impl": agg.Stats["transitions"]}
		},
	})
}
