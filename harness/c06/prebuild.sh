#!/bin/bash
# Extract the seed corpus (every YAML rule body in the repository's fixtures) into Go source compiled into the harness.
set -eu
python3 "$(dirname "$0")/../c02/seeds.py" "$1" 1>&2
echo "--replace"
echo "verifharness/c06/seeds_gen.go=$1/seeds_gen.go"
