#!/bin/bash
# Extract the seed corpus (every YAML rule body in the repository's fixtures) into $1/seeds.
exec python3 "$(dirname "$0")/../c02/seeds.py" "$1" 1>&2
