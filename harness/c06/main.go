// c06: reported positions spell the text they point at. See DESIGN.md §2 C06.
package main

import (
	"context"
	"fmt"
	"os"
	"regexp"
	"strings"

	"github.com/prometheus/common/model"

	"github.com/cloudflare/pint/internal/config"
	"github.com/cloudflare/pint/internal/diags"
	"github.com/cloudflare/pint/internal/discovery"
	"github.com/cloudflare/pint/internal/output"
	"github.com/cloudflare/pint/internal/parser"
	"github.com/cloudflare/pint/verifharness/explore"
	"github.com/cloudflare/pint/verifharness/lib/pipeline"
	"github.com/cloudflare/pint/verifharness/lib/rulegen"
)

var (
	cfg   config.Config
	gen   *config.PrometheusGenerator
	seeds []string
)

func setup(t string) {
	cfg = pipeline.DefaultConfig()
	gen = pipeline.Generator(cfg)
	// every space runs setup: whatever a process ran before, it ends with the same corpus. seedCorpus is compiled
	// into the binary (seeds_gen.go, written by prebuild.sh), so the master and all workers agree on it.
	seeds = seeds[:0]
	for _, b := range seedCorpus {
		if len(b) < 8000 {
			seeds = append(seeds, b)
		}
	}
	if len(seeds) < 50 {
		panic(fmt.Sprintf("seed corpus missing or too small: %d seeds", len(seeds)))
	}
}

type pos struct{ line, col int }

func expand(prs diags.PositionRanges) (out []pos) {
	for _, pr := range prs {
		for c := pr.FirstColumn; c <= pr.LastColumn; c++ {
			out = append(out, pos{pr.Line, c})
		}
	}
	return out
}

// spell checks that reading the file at the positions yields the value, character by character; a value
// space/newline may sit on the end-of-line position of the source (line folding / block line break).
// Trailing spaces/newlines of the value (block chomping) need no position.
func spell(value string, prs diags.PositionRanges, lines []string) string {
	seq := expand(prs)
	need := len(strings.TrimRight(value, " \n"))
	if len(seq) < need {
		return fmt.Sprintf("positions cover %d characters, the value has %d (%d without trailing blanks)", len(seq), len(value), need)
	}
	if len(seq) > len(value) {
		return fmt.Sprintf("positions cover %d characters, the value has only %d", len(seq), len(value))
	}
	for i, p := range seq {
		if p.line < 1 || p.line > len(lines) {
			return fmt.Sprintf("position %d is on line %d, the file has %d lines", i, p.line, len(lines))
		}
		l := lines[p.line-1]
		if i > 0 && (p.line < seq[i-1].line || (p.line == seq[i-1].line && p.col <= seq[i-1].col)) {
			return fmt.Sprintf("position %d (%d:%d) does not come after position %d (%d:%d)", i, p.line, p.col, i-1, seq[i-1].line, seq[i-1].col)
		}
		ch := value[i]
		switch {
		case p.col >= 1 && p.col <= len(l):
			if l[p.col-1] != ch {
				return fmt.Sprintf("value[%d]=%q but the file has %q at %d:%d", i, ch, l[p.col-1], p.line, p.col)
			}
		case p.col == len(l)+1:
			if ch != ' ' && ch != '\n' {
				return fmt.Sprintf("value[%d]=%q mapped to the end of line %d", i, ch, p.line)
			}
		case (ch == ' ' || ch == '\n') && strings.TrimSpace(l) == "":
			// a line break of the value mapped past the end of a blank line that is shorter than the
			// indentation of the document it sits in (embedded documents: offsets are added blindly)
			return fmt.Sprintf("line break value[%d] mapped to column %d of the blank line %d (length %d)", i, p.col, p.line, len(l))
		default:
			return fmt.Sprintf("position %d column %d is outside line %d (length %d)", i, p.col, p.line, len(l))
		}
	}
	return ""
}

// escaped reports whether the source lines a field sits on use quoting escapes, for which the property is
// not defined (no source characters spell the value).
func escaped(prs diags.PositionRanges, lines []string, value string) bool {
	lr := prs.Lines()
	for l := max(lr.First, 1); l <= lr.Last && l <= len(lines); l++ {
		s := lines[l-1]
		if strings.Contains(s, `\`) && strings.Contains(s, `"`) {
			return true
		}
		if strings.Contains(s, `''`) {
			return true
		}
	}
	// value characters that can only come from an escape
	for i := 0; i < len(value); i++ {
		if value[i] < 0x20 && value[i] != '\n' {
			return true
		}
	}
	return false
}

func styleOf(prs diags.PositionRanges, lines []string) string {
	if len(prs) == 0 {
		return "unknown"
	}
	p := prs[0]
	if p.Line < 1 || p.Line > len(lines) {
		return "unknown"
	}
	l := lines[p.Line-1]
	multi := prs.Lines().First != prs.Lines().Last
	pre := ""
	if p.FirstColumn-2 >= 0 && p.FirstColumn-2 < len(l) {
		pre = l[p.FirstColumn-2 : p.FirstColumn-1]
	}
	s := "plain"
	switch pre {
	case `"`:
		s = "double"
	case `'`:
		s = "single"
	}
	if p.Line >= 2 {
		prev := strings.TrimRight(lines[p.Line-2], " ")
		if i := strings.Index(prev, " #"); i >= 0 {
			prev = strings.TrimRight(prev[:i], " ")
		}
		for _, ind := range []string{"|", "|-", "|+", ">", ">-", ">+", "|2", "|1", "|4"} {
			if strings.HasSuffix(prev, ": "+ind) {
				s = "block" + ind
			}
		}
	}
	if multi {
		s += "-multiline"
	}
	return s
}

var reBlockBlank = regexp.MustCompile(`: \|[-+0-9]*[ \t]*\n[ \t]*\n`)

var reAnchor = regexp.MustCompile(`(: +|- +)[&*][A-Za-z_]`)

// rootCause maps a violating file to a root-cause class where one is recognisable from the file itself;
// "" keeps the detailed per-field signature.
func rootCause(content string, lines []string, prs diags.PositionRanges, sig string) string {
	if reAnchor.MatchString(content) || strings.Contains(content, "<<:") {
		return "anchor-or-alias"
	}
	if strings.Contains(content, ": |") && strings.Contains(content, " groups:") && (reBlockBlank.MatchString(content) || strings.Contains(content, "\n---")) {
		// the known class: an embedded document that starts with a blank line or sits in a later document
		return "nested-yaml-document"
	}
	if strings.Contains(sig, "style=block") {
		return "" // the blank-line class is about flow (plain/quoted) scalars only
	}
	lr := prs.Lines()
	for l := max(lr.First, 1); l < lr.Last && l <= len(lines); l++ {
		if strings.TrimSpace(lines[l-1]) == "" {
			return "blank-line-inside-scalar"
		}
	}
	return ""
}

func checkFile(content string, strict bool, cs *explore.Case, input map[string]any) {
	inner := &explore.Case{}
	checkFile1(content, strict, inner, input)
	cs.Stats, cs.Sets = inner.Stats, inner.Sets
	lines := strings.Split(content, "\n")
	for _, v := range inner.Viol {
		var prs diags.PositionRanges
		if m, ok := v.Detail.(map[string]any); ok {
			if p, ok := m["pos"].(diags.PositionRanges); ok {
				prs = p
			}
		}
		if strings.Contains(v.What, "mapped to column") && strings.Contains(v.What, "of the blank line") && strings.Contains(content, ": |") {
			cs.Violate("embedded-blank-line-break-column", v.What+" ("+v.Sig+")", v.Detail)
		} else if rc := rootCause(content, lines, prs, v.Sig); rc != "" {
			cs.Violate(rc, v.What+" ("+v.Sig+")", v.Detail)
		} else {
			cs.Viol = append(cs.Viol, v)
		}
	}
}

// prior is the file parsed before the one under test (pipeline.PriorFiles), chosen by each space.
var prior int

// digest of what a parse found: rules with their lines and errors
func parseDigest(entries []discovery.Entry) string {
	var l []string
	for _, e := range entries {
		if e.PathError != nil {
			l = append(l, "PATHERROR "+e.PathError.Error())
			continue
		}
		l = append(l, fmt.Sprintf("%s %s %d-%d %v", e.Rule.Type(), e.Rule.Name(), e.Rule.Lines.First, e.Rule.Lines.Last, e.Rule.Error.Err))
	}
	return strings.Join(l, "\n")
}

func checkFile1(content string, strict bool, cs *explore.Case, input map[string]any) {
	pipeline.Prime(prior)
	input["file_parsed_before"] = pipeline.PriorFiles[prior]
	lines := strings.Split(content, "\n")
	path := pipeline.WriteFile("rules.yml", []byte(content))
	entries, crash := pipeline.Parse(path, []byte(content), strict, parser.PrometheusSchema, model.UTF8Validation)
	if prior > 0 && crash == nil {
		// the same file after the neutral prior file: what is found must not depend on the file parsed before
		pipeline.Prime(0)
		ref, rcrash := pipeline.Parse(path, []byte(content), strict, parser.PrometheusSchema, model.UTF8Validation)
		if rcrash == nil && parseDigest(ref) != parseDigest(entries) {
			cs.Violate("previous-file-influences-parse", fmt.Sprintf("after prior file %d the parse finds\n%s\nafter the neutral file it finds\n%s", prior, parseDigest(entries), parseDigest(ref)), input)
			return
		}
		pipeline.Prime(prior)
		entries, crash = pipeline.Parse(path, []byte(content), strict, parser.PrometheusSchema, model.UTF8Validation)
	}
	if crash != nil {
		cs.Count("parse_crashed", 1)
		return
	}
	nrules := 0
	fieldsByPos := map[string]string{}
	for _, e := range entries {
		if e.PathError != nil || e.Rule.Error.Err != nil {
			continue
		}
		nrules++
		ruleLines := e.Rule.Lines
		if ruleLines.First < 1 || ruleLines.Last < ruleLines.First || ruleLines.Last > len(lines) {
			cs.Violate("rule-lines-outside-file", fmt.Sprintf("rule %q has line range %s, the file has %d lines", e.Rule.Name(), ruleLines, len(lines)), input)
		}
		for _, f := range pipeline.Fields(e.Rule) {
			if f.Node == nil {
				continue
			}
			cs.Count("fields", 1)
			if escaped(f.Node.Pos, lines, f.Node.Value) {
				cs.Count("fields_with_escapes_skipped", 1)
				continue
			}
			base := strings.SplitN(f.Name, "[", 2)[0]
			if strings.HasSuffix(f.Name, ".key") {
				base += ".key"
			} else if strings.HasSuffix(f.Name, ".value") {
				base += ".value"
			}
			st := styleOf(f.Node.Pos, lines)
			cs.AddToSet("field_styles", base+"/"+st)
			if f.Node.Value == "" {
				continue
			}
			if why := spell(f.Node.Value, f.Node.Pos, lines); why != "" {
				cs.Violate(fmt.Sprintf("positions-do-not-spell-value field=%s style=%s", base, st),
					fmt.Sprintf("field %s=%q: %s", f.Name, f.Node.Value, why), map[string]any{"input": input, "pos": f.Node.Pos})
				continue
			}
			fl := f.Node.Pos.Lines()
			if fl.First < ruleLines.First || fl.Last > ruleLines.Last {
				cs.Violate(fmt.Sprintf("rule-lines-do-not-enclose field=%s style=%s", base, st),
					fmt.Sprintf("rule lines %s do not enclose field %s on lines %s", ruleLines, f.Name, fl), input)
			}
			fieldsByPos[fmt.Sprint(f.Node.Pos)] = f.Node.Value
			// readRange on every sub-range (short values) or on a sliding window
			seq := expand(f.Node.Pos)
			n := len(seq)
			step := 1
			if n > 24 {
				step = n / 12
			}
			for a := 1; a <= n; a += step {
				for b := a; b <= n; b += step {
					got := expand(diags.VerifReadRange(a, b, f.Node.Pos))
					want := seq[a-1 : b]
					if fmt.Sprint(got) != fmt.Sprint(want) {
						cs.Violate("readRange-mismatch", fmt.Sprintf("readRange(%d,%d) on field %s returns %v, expected %v", a, b, f.Name, got, want), input)
						a, b = n+1, n+1
					}
					cs.Count("subranges", 1)
				}
			}
		}
	}
	cs.Count("rules", int64(nrules))
	// diagnostics of every report: the columns are offsets into the field value
	reports, crash := pipeline.Lint(context.Background(), config.LintCommand, cfg, gen, entriesOK(entries))
	if crash != nil {
		cs.Count("lint_crashed", 1)
		return
	}
	for _, r := range reports {
		for _, d := range r.Problem.Diagnostics {
			val, ok := fieldsByPos[fmt.Sprint(d.Pos)]
			if !ok {
				continue // positions of a field that failed above, or a synthetic position
			}
			cs.Count("diagnostics", 1)
			dl := d.Pos.Len()
			first, last := min(d.FirstColumn, dl), min(d.LastColumn, dl)
			if first < 1 || last < first {
				// an empty range lands on no character: nothing to read back (counted, not a violation;
				// promql/syntax takes these columns from the Prometheus parser's error range)
				cs.Count("empty_diagnostic_ranges", 1)
				continue
			}
			got := expand(diags.VerifReadRange(first, last, d.Pos))
			var sb strings.Builder
			for _, p := range got {
				l := lines[p.line-1]
				if p.col <= len(l) {
					sb.WriteByte(l[p.col-1])
				} else {
					sb.WriteByte(' ')
				}
			}
			want := strings.NewReplacer("\n", " ").Replace(val[first-1 : last])
			if sb.String() != want {
				cs.Violate("diagnostic-points-at-wrong-text reporter="+r.Problem.Reporter, fmt.Sprintf("diagnostic %q columns %d-%d read %q from the file, the value has %q there", d.Message, first, last, sb.String(), want), input)
			}
		}
	}
}

func entriesOK(in []discovery.Entry) []discovery.Entry { return in }

func styled(c *explore.Chooser) *explore.Case {
	d := rulegen.Styled(c)
	if !d.Valid {
		return &explore.Case{Skip: true}
	}
	mode := c.Free(2, "also-relaxed")
	prior = c.Free(len(pipeline.PriorFiles), "file-parsed-before")
	strict := strings.HasPrefix(d.Text, "groups:") && mode == 0
	input := map[string]any{"choices": d.Choices, "file": d.Text, "strict": strict}
	cs := &explore.Case{Input: input, Key: fmt.Sprint(strict, prior) + d.Text, Trivial: len(d.Choices) == 0}
	checkFile(d.Text, strict, cs, input)
	if cs.Stats["rules"] == 0 {
		cs.Count("generated_but_no_rule_parsed", 1)
	}
	cs.Outcome = fmt.Sprintf("rules=%d viol=%d", cs.Stats["rules"], len(cs.Viol))
	return cs
}

// embedded: a generated rule document inside one or two levels of YAML-in-YAML block scalars (a ConfigMap, a
// Helm values file holding a manifest), relaxed mode: positions must still point into the file.
func embedded(c *explore.Chooser) *explore.Case {
	d := rulegen.Styled(c)
	if !d.Valid || !strings.HasPrefix(d.Text, "groups:") || strings.HasPrefix(d.Text, "groups:\n\n") {
		return &explore.Case{Skip: true}
	}
	prior = 0
	depth := 1 + c.Free(2, "embed-depth")
	indent := []int{2, 4}[c.Free(2, "embed-indent")]
	before := c.Free(3, "siblings-before")
	text := strings.TrimRight(d.Text, "\n") + "\n"
	for lvl := 0; lvl < depth; lvl++ {
		var sb strings.Builder
		if lvl == depth-1 {
			sb.WriteString("kind: ConfigMap\n")
		}
		for i := 0; i < before; i++ {
			fmt.Fprintf(&sb, "note%d: level %d\n", i, lvl)
		}
		sb.WriteString("data:\n")
		pad := strings.Repeat(" ", indent)
		fmt.Fprintf(&sb, "%srules.yml: |\n", pad)
		for _, l := range strings.Split(strings.TrimSuffix(text, "\n"), "\n") {
			if l == "" {
				sb.WriteString("\n")
			} else {
				sb.WriteString(pad + pad + l + "\n")
			}
		}
		text = sb.String()
	}
	input := map[string]any{"choices": d.Choices, "file": text, "strict": false, "embed_depth": depth}
	cs := &explore.Case{Input: input, Key: text}
	checkFile(text, false, cs, input)
	if cs.Stats["rules"] == 0 {
		cs.Count("generated_but_no_rule_parsed", 1)
	}
	cs.Outcome = fmt.Sprintf("embedded depth=%d rules=%d viol=%d", depth, min(cs.Stats["rules"], 1), len(cs.Viol))
	return cs
}

// carets: the rendered form of a diagnostic (what the console and pull-request comments show): the characters
// above the caret run must be the fragment the diagnostic is about, also when multi-byte characters precede it.
var caretDocs = []string{
	"groups:\n- name: g\n  rules:\n  - alert: A\n    expr: up{job=~\"x\"} == 0\n",
	"groups:\n- name: g\n  rules:\n  - alert: A\n    expr: up{dc=\"Zürich\", job=~\"x\"} == 0\n",
	"groups:\n- name: g\n  rules:\n  - alert: Température\n    expr: up{dc=\"東京\", job=~\"x\"} == 0\n    labels:\n      ville: \"Zürich {{ $value }}\"\n",
	"groups:\n- name: g\n  rules:\n  - {alert: Ärger, expr: 'up{job=~\"x\"} == 0'}\n",
}

func carets(c *explore.Chooser) *explore.Case {
	text := caretDocs[c.Free(len(caretDocs), "doc")]
	cs := &explore.Case{Input: map[string]any{"file": text}, Key: text, Outcome: "carets"}
	path := pipeline.WriteFile("rules.yml", []byte(text))
	entries, crash := pipeline.Parse(path, []byte(text), true, parser.PrometheusSchema, model.UTF8Validation)
	if crash != nil {
		return cs
	}
	reports, crash := pipeline.Lint(context.Background(), config.LintCommand, cfg, gen, entries)
	if crash != nil {
		return cs
	}
	lines := strings.Split(text, "\n")
	for _, r := range reports {
		for _, d := range r.Problem.Diagnostics {
			dl := d.Pos.Len()
			first, last := min(d.FirstColumn, dl), min(d.LastColumn, dl)
			if first < 1 || last < first || d.Pos.Lines().First != d.Pos.Lines().Last {
				continue
			}
			// the fragment as the file spells it
			var want strings.Builder
			for _, p := range expand(diags.VerifReadRange(first, last, d.Pos)) {
				l := lines[p.line-1]
				if p.col >= 1 && p.col <= len(l) {
					want.WriteByte(l[p.col-1])
				}
			}
			out := diags.InjectDiagnostics(text, []diags.Diagnostic{d}, output.None)
			ol := strings.Split(out, "\n")
			got := ""
			for i := 0; i+1 < len(ol); i++ {
				caret := ol[i+1]
				if !strings.Contains(caret, "^") {
					continue
				}
				src, cr := []rune(ol[i]), []rune(caret)
				var sb strings.Builder
				for k, ch := range cr {
					if ch == '^' && k < len(src) {
						sb.WriteRune(src[k])
					}
					if ch != '^' && ch != ' ' {
						break
					}
				}
				got = sb.String()
				break
			}
			cs.Count("caret_lines", 1)
			if got != want.String() {
				cs.Violate("carets-point-at-wrong-characters reporter="+r.Problem.Reporter, fmt.Sprintf("the carets of %q stand under %q, the diagnostic is about %q", d.Message, got, want.String()), map[string]any{"file": text, "rendered": out})
			}
		}
	}
	return cs
}

func corpus(c *explore.Chooser) *explore.Case {
	prior = 0
	si := c.Free(len(seeds), "seed")
	op := c.Free(6, "transform")
	strict := c.Free(2, "relaxed") == 0
	text := seeds[si]
	what := []string{"none", "crlf", "no-final-newline", "indent-all+2", "blank-line-between-all", "comment-line-on-top"}[op]
	switch op {
	case 1:
		text = strings.ReplaceAll(text, "\n", "\r\n")
	case 2:
		text = strings.TrimSuffix(text, "\n")
	case 3:
		ls := strings.Split(strings.TrimSuffix(text, "\n"), "\n")
		for i := range ls {
			if ls[i] != "" {
				ls[i] = "  " + ls[i]
			}
		}
		text = strings.Join(ls, "\n") + "\n"
	case 4:
		if strings.Contains(text, "|") || strings.Contains(text, ">") {
			return &explore.Case{Skip: true}
		}
		text = strings.ReplaceAll(text, "\n", "\n\n")
	case 5:
		text = "# top\n\n" + text
	}
	input := map[string]any{"seed": si, "transform": what, "file": text, "strict": strict}
	cs := &explore.Case{Input: input, Key: fmt.Sprint(strict) + text}
	checkFile(text, strict, cs, input)
	cs.Outcome = fmt.Sprintf("rules=%d viol=%d", min(cs.Stats["rules"], 3), len(cs.Viol))
	cs.Trivial = cs.Stats["rules"] == 0
	return cs
}

func main() {
	// one P per worker: a sync.Pool then hands a released object back to the next Get, so state leaking through
	// pooled objects from the file parsed before is deterministic instead of depending on goroutine migration
	if os.Getenv("VERIF_WORKER_GOMAXPROCS") == "" {
		os.Setenv("VERIF_WORKER_GOMAXPROCS", "1")
	}
	// the styled and embedded spaces generate with the same indent dimension whichever space a worker process
	// ran first (it used to be set by the styled space's Setup only)
	rulegen.NestedIndents = []int{2, 1, 3}
	explore.Main(&explore.Config{
		Property: "C06", Level: "exploration",
		Rule: "(a) one/two-rule documents: every extracted field (alert, expr, for, keep_firing_for, label/annotation values, quoted label key) x 17 scalar styles (plain, quoted, literal/folded with every chomping indicator, indentation indicator, 1- and 4-space block indents, multi-line plain/quoted, blank lines) x value vocabulary stressing the greedy matcher x comment/blank placement x 5 layouts x label/annotation keys indented by 2, 1 or 3 (a free dimension, not a deviation) x field order x final newline, all documents with <=k non-default choices (k=2 quick, 3 thorough), strict and relaxed; (b) every YAML fixture of the repository x 6 whole-file transforms x 2 modes. Oracle needs no hand-written expectation: the file read at YamlNode.Pos must spell YamlNode.Value; every sub-range through readRange; every diagnostic of every default check. distinct = distinct (mode, bytes); non-trivial = at least one rule parsed / one non-default choice",
		Assumptions: []string{
			"fields on lines using quoting escapes (backslash in double quotes, '' in single quotes) are skipped and counted: no source characters spell such values",
			"a value space or newline may map to the end-of-line position of the source (folding); trailing blanks of block scalars need no position",
		},
		Spaces: []*explore.Space{
			{Name: "styled", Body: styled, Setup: setup, Bound: func(t string) int {
				if t == "thorough" {
					return 3
				}
				return 2
			}},
			{Name: "corpus", Body: corpus, Setup: setup, Bound: func(string) int { return -1 }},
			{Name: "carets", Body: carets, Setup: setup, Bound: func(string) int { return -1 }},
			{Name: "embedded", Body: embedded, Setup: setup, Bound: func(t string) int {
				if t == "thorough" {
					return 2
				}
				return 1
			}},
		},
		BudgetS: func(t string) int {
			if t == "thorough" {
				return 1800
			}
			return 300
		},
		Finish: func(tier string, agg *explore.Aggregate) ([]explore.Violation, string) {
			if agg.Stats["fields"] < 1000 {
				return nil, fmt.Sprintf("vacuity guard: only %d fields checked", agg.Stats["fields"])
			}
			if agg.Stats["generated_but_no_rule_parsed"]*5 > agg.Execs {
				return nil, fmt.Sprintf("vacuity guard: %d of %d generated documents did not parse into a rule", agg.Stats["generated_but_no_rule_parsed"], agg.Execs)
			}
			return nil, ""
		},
	})
}
