// c14: identical questions reach a Prometheus server once; concurrency stays bounded. DESIGN.md §2 C14.
// Engine S: the real promapi client (synchronisation primitives mechanically replaced by scheduler shims)
// runs under a cooperative scheduler; all interleavings up to a preemption bound are explored.
package main

import (
	"context"
	"fmt"
	"io"
	"log/slog"
	"net/http"
	"net/url"
	"os"
	"sort"
	"strconv"
	"strings"
	"time"

	"github.com/cloudflare/pint/internal/promapi"
	"github.com/cloudflare/pint/verifharness/explore"
	"github.com/cloudflare/pint/verifharness/rt"
)

func init() { slog.SetDefault(slog.New(slog.NewTextHandler(io.Discard, nil))) }

// ---- fake server: one per scenario, shared by every upstream of that scenario ----

type server struct {
	c           *explore.Chooser
	faults      bool // the answer is a choice (ok / 503 server_error / 400 bad_data)
	now         time.Time
	inflight    map[string]int // request key -> in flight
	inflightTot map[string]int // upstream -> in flight
	served      map[string]int // key -> successful answers
	lastOK      map[string]time.Time
	limit       map[string]int // upstream -> configured concurrency
	viol        []explore.Violation
	log         []string
}

func (s *server) violate(sig, what string) {
	for _, v := range s.viol {
		if v.Sig == sig {
			return
		}
	}
	s.viol = append(s.viol, explore.Violation{Sig: sig, What: what})
}

type transport struct {
	srv      *server
	upstream string
}

func (t transport) RoundTrip(req *http.Request) (*http.Response, error) {
	s := t.srv
	args := ""
	if req.Body != nil {
		b, _ := io.ReadAll(req.Body)
		v, _ := url.ParseQuery(string(b))
		v.Del("timeout")
		v.Del("stats")
		args = v.Encode()
	}
	if req.URL.RawQuery != "" {
		args += "&" + req.URL.RawQuery
	}
	key := t.upstream + req.URL.Path + "?" + args
	s.inflight[key]++
	s.inflightTot[t.upstream]++
	s.log = append(s.log, "arrive "+key)
	if s.inflight[key] > 1 {
		s.violate("identical-requests-in-flight endpoint="+endpointOf(req.URL.Path), fmt.Sprintf("%d identical requests in flight: %s", s.inflight[key], key))
	}
	if s.inflightTot[t.upstream] > s.limit[t.upstream] {
		s.violate("concurrency-limit-exceeded", fmt.Sprintf("%d requests in flight to %s, concurrency=%d", s.inflightTot[t.upstream], t.upstream, s.limit[t.upstream]))
	}
	if at, ok := s.lastOK[key]; ok && s.now.Sub(at) < 4*time.Minute {
		s.violate("question-asked-again-within-cache-lifetime endpoint="+endpointOf(req.URL.Path), "the server already answered "+key+" successfully and is asked again within the cache lifetime")
	}
	rt.Yield("http.arrive")
	answer := 0
	if s.faults {
		answer = s.c.Choose(3, "http.answer")
	}
	rt.Yield("http.respond")
	s.inflight[key]--
	s.inflightTot[t.upstream]--
	s.log = append(s.log, fmt.Sprintf("answer %d %s", answer, key))
	if err := req.Context().Err(); err != nil {
		return nil, err
	}
	mk := func(code int, body string) (*http.Response, error) {
		return &http.Response{StatusCode: code, Status: fmt.Sprintf("%d", code), Header: http.Header{"Content-Type": []string{"application/json"}}, Body: io.NopCloser(strings.NewReader(body)), Request: req}, nil
	}
	switch answer {
	case 1:
		return mk(503, `{"status":"error","errorType":"server_error","error":"overloaded"}`)
	case 2:
		return mk(400, `{"status":"error","errorType":"bad_data","error":"bad query"}`)
	}
	s.served[key]++
	s.lastOK[key] = s.now
	n := s.served[key]
	switch endpointOf(req.URL.Path) {
	case "query":
		return mk(200, fmt.Sprintf(`{"status":"success","data":{"resultType":"vector","result":[{"metric":{"__name__":"up","answer":"%d"},"value":[1700000000,"1"]}]}}`, n))
	case "query_range":
		return mk(200, fmt.Sprintf(`{"status":"success","data":{"resultType":"matrix","result":[{"metric":{"__name__":"up","answer":"%d"},"values":[[%s,"1"]]}]}}`, n, url.Values{}.Get("start")+strings.Split(strings.Split(args, "start=")[1], "&")[0]))
	case "config":
		return mk(200, fmt.Sprintf(`{"status":"success","data":{"yaml":"global:\n  external_labels:\n    answer: \"%d\"\n"}}`, n))
	case "flags":
		return mk(200, fmt.Sprintf(`{"status":"success","data":{"answer":"%d"}}`, n))
	default:
		return mk(200, fmt.Sprintf(`{"status":"success","data":{"up":[{"type":"gauge","help":"answer %d","unit":""}]}}`, n))
	}
}

func endpointOf(p string) string {
	switch {
	case strings.HasSuffix(p, "/query"):
		return "query"
	case strings.HasSuffix(p, "/query_range"):
		return "query_range"
	case strings.HasSuffix(p, "/config"):
		return "config"
	case strings.HasSuffix(p, "/flags"):
		return "flags"
	}
	return "metadata"
}

type window struct {
	start, end time.Time
	step       time.Duration
}

func (w window) Start() time.Time    { return w.start }
func (w window) End() time.Time      { return w.end }
func (w window) Dur() time.Duration  { return w.end.Sub(w.start) }
func (w window) Step() time.Duration { return w.step }
func (w window) String() string      { return fmt.Sprintf("%s/%s", w.end.Sub(w.start), w.step) }

var epoch = time.Date(2024, 3, 10, 0, 0, 0, 0, time.UTC)

// a caller asks one question and records what it got
type call struct {
	name string
	do   func(ctx context.Context) (string, error)
	res  string
	err  error
	done bool
}

type scenario struct {
	name  string
	build func(srv *server) (calls []*call, background []func(), closeAll func())
}

func newProm(srv *server, name string, conc int) *promapi.Prometheus {
	srv.limit[name] = conc
	p := promapi.VerifNewPrometheus(name, "http://"+name, conc, transport{srv, name}, func() time.Time { return srv.now })
	return p
}

func queryCall(p *promapi.Prometheus, label, expr string) *call {
	return &call{name: label + " Query(" + expr + ")", do: func(ctx context.Context) (string, error) {
		r, err := p.Query(ctx, expr)
		if err != nil {
			return "", err
		}
		return fmt.Sprint(r.Series), nil
	}}
}

func rangeCall(p *promapi.Prometheus, label, expr string, w window) *call {
	return &call{name: label + " RangeQuery(" + expr + "," + w.String() + ")", do: func(ctx context.Context) (string, error) {
		r, err := p.RangeQuery(ctx, expr, w)
		if err != nil {
			return "", err
		}
		return r.Series.Ranges.String(), nil
	}}
}

var scenarios = []scenario{
	{"S1 three callers, same instant query, concurrency 2", func(srv *server) ([]*call, []func(), func()) {
		p := newProm(srv, "p", 2)
		p.StartWorkers()
		return []*call{queryCall(p, "a", "q1"), queryCall(p, "b", "q1"), queryCall(p, "c", "q1")}, nil, p.Close
	}},
	{"S2 two callers q1 + one q2, concurrency 1", func(srv *server) ([]*call, []func(), func()) {
		p := newProm(srv, "p", 1)
		p.StartWorkers()
		return []*call{queryCall(p, "a", "q1"), queryCall(p, "b", "q1"), queryCall(p, "c", "q2")}, nil, p.Close
	}},
	{"S3 two callers, same range query (2 slices), concurrency 2", func(srv *server) ([]*call, []func(), func()) {
		p := newProm(srv, "p", 2)
		p.StartWorkers()
		w := window{epoch.Add(time.Hour), epoch.Add(4 * time.Hour), 5 * time.Minute}
		return []*call{rangeCall(p, "a", "q1", w), rangeCall(p, "b", "q1", w)}, nil, p.Close
	}},
	{"S4 config, flags and metadata twice each, concurrency 2", func(srv *server) ([]*call, []func(), func()) {
		p := newProm(srv, "p", 2)
		p.StartWorkers()
		cfg := func(l string) *call {
			return &call{name: l + " Config", do: func(ctx context.Context) (string, error) {
				r, err := p.Config(ctx, 0)
				if err != nil {
					return "", err
				}
				return fmt.Sprint(r.Config.Global.ExternalLabels), nil
			}}
		}
		flg := func(l string) *call {
			return &call{name: l + " Flags", do: func(ctx context.Context) (string, error) {
				r, err := p.Flags(ctx)
				if err != nil {
					return "", err
				}
				return fmt.Sprint(r.Flags), nil
			}}
		}
		md := func(l string) *call {
			return &call{name: l + " Metadata(up)", do: func(ctx context.Context) (string, error) {
				r, err := p.Metadata(ctx, "up")
				if err != nil {
					return "", err
				}
				return fmt.Sprint(r.Metadata), nil
			}}
		}
		return []*call{cfg("a"), cfg("b"), flg("c"), flg("d"), md("e"), md("f")}, nil, p.Close
	}},
	{"S5 two callers q1 + one q2, concurrency 1, server may fail", func(srv *server) ([]*call, []func(), func()) {
		srv.faults = true
		p := newProm(srv, "p", 1)
		p.StartWorkers()
		return []*call{queryCall(p, "a", "q1"), queryCall(p, "b", "q1"), queryCall(p, "c", "q2")}, nil, p.Close
	}},
	{"S9 three callers, same instant query, concurrency 2, server may fail", func(srv *server) ([]*call, []func(), func()) {
		srv.faults = true
		p := newProm(srv, "p", 2)
		p.StartWorkers()
		return []*call{queryCall(p, "a", "q1"), queryCall(p, "b", "q1"), queryCall(p, "c", "q1")}, nil, p.Close
	}},
	{"S6 two callers same query + cache gc in the background + Close", func(srv *server) ([]*call, []func(), func()) {
		p := newProm(srv, "p", 2)
		p.StartWorkers()
		gc := func() {
			rt.Yield("gc")
			promapi.VerifCacheGC(p)
		}
		return []*call{queryCall(p, "a", "q1"), queryCall(p, "b", "q1")}, []func(){gc}, p.Close
	}},
	{"S7 two upstreams sharing one cache, same query on each twice", func(srv *server) ([]*call, []func(), func()) {
		p1 := newProm(srv, "p1", 1)
		p2 := newProm(srv, "p2", 1)
		promapi.VerifShareCache(p1, p2)
		p1.StartWorkers()
		p2.StartWorkers()
		return []*call{queryCall(p1, "a", "q1"), queryCall(p2, "b", "q1"), queryCall(p1, "c", "q1")}, nil, func() { p1.Close(); p2.Close() }
	}},
	{"S8 two range queries, same expression and step, different look-back sharing one aligned slice", func(srv *server) ([]*call, []func(), func()) {
		p := newProm(srv, "p", 2)
		p.StartWorkers()
		w1 := window{epoch.Add(2 * time.Hour), epoch.Add(6 * time.Hour), 5 * time.Minute}
		w2 := window{epoch.Add(4 * time.Hour), epoch.Add(6 * time.Hour), 5 * time.Minute}
		return []*call{rangeCall(p, "a", "q1", w1), rangeCall(p, "b", "q1", w2)}, nil, p.Close
	}},
}

func bodyFor(si int) explore.Body {
	return func(c *explore.Chooser) *explore.Case { return body(c, si) }
}

func body(c *explore.Chooser, si int) *explore.Case {
	sc := scenarios[si]
	srv := &server{c: c, now: epoch.Add(100 * time.Hour), inflight: map[string]int{}, inflightTot: map[string]int{}, served: map[string]int{}, lastOK: map[string]time.Time{}, limit: map[string]int{}}
	var calls []*call
	digest := func() uint64 {
		h := uint64(7)
		add := func(m map[string]int) {
			ks := make([]string, 0, len(m))
			for k := range m {
				ks = append(ks, k)
			}
			sort.Strings(ks)
			for _, k := range ks {
				for i := 0; i < len(k); i++ {
					h = (h ^ uint64(k[i])) * 1099511628211
				}
				h = (h ^ uint64(m[k]+1)) * 1099511628211
			}
		}
		add(srv.inflight)
		add(srv.served)
		add(srv.inflightTot)
		h = (h ^ uint64(len(srv.viol)+1)) * 1099511628211
		return h
	}
	sched, reason := rt.RunOpt(c, rt.Options{Horizon: 20000, ExtraState: digest, CostFree: costFree[strings.Fields(sc.name)[0]]}, func() {
		var closeAll func()
		var bg []func()
		calls, bg, closeAll = sc.build(srv)
		var wg rt.WaitGroup
		for _, cl := range calls {
			cl := cl
			wg.Add(1)
			rt.Go(func() {
				defer wg.Done()
				cl.res, cl.err = cl.do(context.Background())
				cl.done = true
			})
		}
		for _, f := range bg {
			f := f
			wg.Add(1)
			rt.Go(func() {
				defer wg.Done()
				f()
			})
		}
		wg.Wait()
		closeAll()
	})
	cs := &explore.Case{Input: map[string]any{"scenario": sc.name}}
	cs.Count("transitions", int64(sched.Points))
	cs.Count("traces_validated_against_impl", 1)
	cs.Count("preemptions", int64(sched.Preemptions))
	if reason != "" {
		kind := "deadlock"
		if !strings.HasPrefix(reason, "deadlock") {
			kind = "aborted"
		}
		cs.Violate(fmt.Sprintf("%s scenario=%s", kind, strings.Fields(sc.name)[0]), reason, map[string]any{"scenario": sc.name, "server_log": srv.log})
		cs.Outcome = kind
		return cs
	}
	for _, v := range srv.viol {
		cs.Violate(v.Sig+" scenario="+strings.Fields(sc.name)[0], v.What, map[string]any{"scenario": sc.name, "server_log": srv.log})
	}
	// all callers of one question get equal results; an error must have been produced by the server
	byQ := map[string][]*call{}
	for _, cl := range calls {
		if !cl.done {
			cs.Violate("caller-never-returned scenario="+strings.Fields(sc.name)[0], cl.name+" did not return", nil)
			continue
		}
		q := cl.name[strings.Index(cl.name, " ")+1:]
		byQ[q] = append(byQ[q], cl)
	}
	var outs []string
	for q, cls := range byQ {
		var ok []string
		for _, cl := range cls {
			if cl.err != nil {
				if !srv.faults {
					cs.Violate("error-without-server-fault scenario="+strings.Fields(sc.name)[0], cl.name+" failed with "+cl.err.Error()+" although the server never failed", map[string]any{"server_log": srv.log})
				}
				outs = append(outs, q+"=err")
				continue
			}
			ok = append(ok, cl.res)
			outs = append(outs, q+"="+cl.res)
		}
		for _, r := range ok {
			if r != ok[0] {
				cs.Violate("callers-got-different-results scenario="+strings.Fields(sc.name)[0], fmt.Sprintf("callers of %s received different results: %q vs %q", q, ok[0], r), map[string]any{"server_log": srv.log})
			}
		}
	}
	// a successful answer is reused: without faults and clock advance every question is served exactly once
	if !srv.faults {
		for k, n := range srv.served {
			if n > 1 {
				cs.Violate("question-answered-more-than-once scenario="+strings.Fields(sc.name)[0]+" endpoint="+endpointOf(strings.Split(k, "?")[0]), fmt.Sprintf("the server answered %s %d times", k, n), map[string]any{"server_log": srv.log})
			}
		}
	}
	sort.Strings(outs)
	cs.Outcome = strings.Fields(sc.name)[0] + ":" + strings.Join(outs, ",")
	if len(cs.Outcome) > 120 {
		cs.Outcome = cs.Outcome[:120]
	}
	cs.AddToSet("states", fmt.Sprintf("%s/%d", strings.Fields(sc.name)[0], len(srv.log)))
	return cs
}

// bounds per scenario: {quick, thorough}. For S1 S2 S5 S6 S7 the bound counts preemptions (choices among
// runnable threads when the running one blocks are free); S3 S4 S8 have 8-10 threads, there every departure
// from the default schedule counts (costFree).
var bounds = map[string][2]int{"S1": {1, 2}, "S2": {2, 3}, "S3": {2, 3}, "S4": {2, 3}, "S5": {2, 2}, "S6": {2, 3}, "S7": {2, 3}, "S8": {2, 3}, "S9": {2, 3}}
var costFree = map[string]bool{"S3": true, "S4": true, "S8": true}

func spaces() (out []*explore.Space) {
	if only := os.Getenv("VERIF_C14_ONLY"); only == "" || only == "queue-timing" {
		// first: a wrong tree may make the managed scenarios hang (a construct the scheduler does not control)
		out = append(out, &explore.Space{Name: "queue-timing", Body: queueTiming, Bound: func(string) int { return -1 }})
	}
	for i, sc := range scenarios {
		i := i
		id := strings.Fields(sc.name)[0]
		if only := os.Getenv("VERIF_C14_ONLY"); only != "" && only != id {
			continue
		}
		out = append(out, &explore.Space{Name: id, Body: bodyFor(i), StateCache: true, Bound: func(t string) int {
			if b := os.Getenv("VERIF_C14_BOUND"); b != "" {
				n, _ := strconv.Atoi(b)
				return n
			}
			if t == "thorough" {
				return bounds[id][1]
			}
			return bounds[id][0]
		}})
	}
	return out
}

func main() {
	explore.Main(&explore.Config{
		Property: "C14", Level: "model_checking",
		Rule: "a free-running real-time scenario (queue-timing: 16-18 questions keep both workers busy, two callers ask the same question behind them; the server must see it once, never twice at a time) and 9 scenarios (three callers one instant query, also with a failing server; two+one callers with concurrency 1; two callers one sliced range query; config/flags/metadata twice each; server answers ok/503/400 by choice; background cache gc; two upstreams sharing a cache; two range queries whose windows share an aligned slice) run on the real promapi client whose sync primitives, channels and go statements are mechanically replaced by scheduler shims; every schedule within a per-scenario bound is executed, with happens-before state caching: S1 S2 S5 S6 S7 bound the preemptions (quick 1-2, thorough 2-3), S3 S4 S8 (8-10 threads) bound all departures from the default schedule (quick 2, thorough 3); monitors on every request: no identical requests in flight, in-flight <= concurrency, no repeat within the cache lifetime, equal results for equal questions, no deadlock, Close returns, every goroutine finishes",
		Assumptions: []string{
			"scheduling points: mutex/rwmutex lock, cond wait/signal/broadcast, waitgroup wait, channel send/recv/close, thread start, context cancel, HTTP request arrival and response; pure releases are not points",
			"unsynchronised accesses are outside this engine: the same scenarios run free under -race in the supplementary pass",
			"every execution is an implementation trace (no separate model)",
		},
		Spaces: spaces(),
		BudgetS: func(t string) int {
			if t == "thorough" {
				return 2400
			}
			return 300
		},
		Extra: func(t string, agg *explore.Aggregate) map[string]any {
			return map[string]any{"states": agg.Execs, "schedules": agg.Execs, "states_note": "states = complete schedules executed (stateless exploration)"}
		},
	})
}
