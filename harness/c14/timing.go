package main

import (
	"context"
	"fmt"
	"io"
	"net/http"
	"net/url"
	"strings"
	"sync"
	"time"

	"github.com/cloudflare/pint/internal/promapi"
	"github.com/cloudflare/pint/verifharness/explore"
)

// queueTiming is a free-running, real-time scenario (no scheduler: the shims fall through to the real primitives).
// 18 (or 16) different questions - fewer than the 20 slots of the job queue - keep both workers busy for ~2.2 s (each
// answer takes 250 ms, a quarter of the 1 s request timeout, so a slow machine does not turn answers into timeouts); behind them two callers ask the same question. Its request only starts after the queue has drained, so a
// caller that stops waiting earlier than its own request can finish would release the question while it is in
// flight. The code under test never makes a caller give up, so on a correct tree the outcome does not depend on how
// slow the machine is: the server sees the question once, never twice at the same time, and both callers get the
// same answer. (Timing only decides whether a *wrong* tree is caught.)
type timedServer struct {
	mu       sync.Mutex
	inflight map[string]int
	seen     map[string]int
	maxSame  int
}

func (s *timedServer) RoundTrip(req *http.Request) (*http.Response, error) {
	body, _ := io.ReadAll(req.Body)
	vals, _ := url.ParseQuery(string(body))
	q := vals.Get("query")
	s.mu.Lock()
	s.inflight[q]++
	s.seen[q]++
	if s.inflight[q] > s.maxSame {
		s.maxSame = s.inflight[q]
	}
	s.mu.Unlock()
	select {
	case <-time.After(250 * time.Millisecond):
	case <-req.Context().Done():
	}
	s.mu.Lock()
	s.inflight[q]--
	s.mu.Unlock()
	if err := req.Context().Err(); err != nil {
		return nil, err
	}
	payload := fmt.Sprintf(`{"status":"success","data":{"resultType":"vector","result":[{"metric":{"q":%q},"value":[1700000000,"1"]}]}}`, q)
	return &http.Response{StatusCode: 200, Status: "200 OK", Header: http.Header{"Content-Type": []string{"application/json"}}, Body: io.NopCloser(strings.NewReader(payload)), Request: req}, nil
}

func queueTiming(c *explore.Chooser) *explore.Case {
	blockers := []int{18, 16}[c.Free(2, "blockers")]
	srv := &timedServer{inflight: map[string]int{}, seen: map[string]int{}}
	p := promapi.VerifNewPrometheusTimeout("p", "http://p", 2, srv, time.Now, time.Second)
	p.StartWorkers()
	defer p.Close()
	var wg sync.WaitGroup
	for i := 0; i < blockers; i++ {
		wg.Add(1)
		go func() {
			defer wg.Done()
			p.Query(context.Background(), fmt.Sprintf("block%d", i))
		}()
	}
	time.Sleep(30 * time.Millisecond)
	errs := make([]error, 2)
	vals := make([]string, 2)
	for k := 0; k < 2; k++ {
		wg.Add(1)
		go func() {
			defer wg.Done()
			r, err := p.Query(context.Background(), "same")
			errs[k] = err
			if err == nil && len(r.Series) == 1 {
				vals[k] = r.Series[0].Labels.String()
			}
		}()
	}
	wg.Wait()
	srv.mu.Lock()
	seen, maxSame := srv.seen["same"], srv.maxSame
	srv.mu.Unlock()
	input := map[string]any{"blockers": blockers, "concurrency": 2, "request_timeout": "1s", "answer_time": "250ms"}
	cs := &explore.Case{Input: input, Key: fmt.Sprint("timing", blockers), Outcome: "queue-timing"}
	switch {
	case maxSame > 1:
		cs.Violate("queue-timing: identical-requests-in-flight", fmt.Sprintf("%d identical requests were in flight at the same time", maxSame), input)
	case seen != 1:
		cs.Violate("queue-timing: question-asked-more-than-once", fmt.Sprintf("the server saw the question %d times", seen), input)
	case errs[0] == nil && errs[1] == nil && vals[0] != vals[1]:
		cs.Violate("queue-timing: callers-got-different-results", fmt.Sprintf("callers got %q and %q", vals[0], vals[1]), input)
	case errs[0] != nil || errs[1] != nil:
		// a request that really timed out (a machine slower than 4x): nothing is concluded from this run
		cs.Outcome = "queue-timing inconclusive (request error)"
	}
	return cs
}
