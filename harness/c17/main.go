// c17: pull-request commenting converges and is idempotent. DESIGN.md §2 C17 (engine B).
package main

import (
	"fmt"
	"strings"

	"github.com/prometheus/common/model"

	"github.com/cloudflare/pint/internal/checks"
	"github.com/cloudflare/pint/internal/diags"
	"github.com/cloudflare/pint/internal/discovery"
	"github.com/cloudflare/pint/internal/parser"
	"github.com/cloudflare/pint/internal/reporter"
	"github.com/cloudflare/pint/verifharness/explore"
	"github.com/cloudflare/pint/verifharness/lib/pipeline"
)

const fileA = "groups:\n- name: g\n  rules:\n  - alert: A\n    expr: up == 0\n    for: 5m\n  - alert: B\n    expr: up == 0\n    for: 5m\n"
const fileB = "groups:\n- name: g\n  rules:\n  - record: c\n    expr: sum(up)\n"

// the problem universe: real rules from real files, problems attached to them
func universe() []reporter.Report {
	pa := pipeline.WriteFile("a.yml", []byte(fileA))
	pb := pipeline.WriteFile("b.yml", []byte(fileB))
	ea, _ := pipeline.Parse(pa, []byte(fileA), true, parser.PrometheusSchema, model.UTF8Validation)
	eb, _ := pipeline.Parse(pb, []byte(fileB), true, parser.PrometheusSchema, model.UTF8Validation)
	mk := func(e discovery.Entry, rep, sum, det string, sev checks.Severity, first, last int, withDiag bool) reporter.Report {
		p := checks.Problem{Reporter: rep, Summary: sum, Details: det, Severity: sev, Lines: diags.LineRange{First: first, Last: last}, Anchor: checks.AnchorAfter}
		if withDiag {
			p.Diagnostics = []diags.Diagnostic{{Message: "look here: " + sum, Pos: e.Rule.Expr().Value.Pos, FirstColumn: 1, LastColumn: 2}}
		}
		return reporter.Report{Path: e.Path, ModifiedLines: e.ModifiedLines, Rule: e.Rule, Problem: p}
	}
	a, b, c := ea[0], ea[1], eb[0]
	return []reporter.Report{
		mk(a, "promql/series", "metric missing", "details one", checks.Bug, 5, 5, true),
		mk(a, "promql/series", "other metric missing", "details two", checks.Bug, 5, 5, true),            // same check, same lines: shares a comment
		mk(a, "alerts/for", "for too short", "", checks.Warning, 5, 5, false),                            // other check on those lines
		mk(c, "promql/aggregate", "label removed", "", checks.Warning, 5, 5, true),                       // second file
		mk(b, "promql/series", "metric missing", "details one", checks.Bug, 8, 8, true),                  // the same problem on another rule ("moved" / duplicate)
		mk(a, "promql/series", "metric missing", "details three", checks.Bug, 5, 5, true),                // same summary as the first, different details
		before(mk(a, "rule/dependency", "rule removed but still used", "", checks.Warning, 5, 5, false)), // anchored on the old side of the diff, same line
	}
}

func before(r reporter.Report) reporter.Report {
	r.Problem.Anchor = checks.AnchorBefore
	return r
}

func body(c *explore.Chooser) *explore.Case {
	maxComments := []int{1, 2, 50}[c.Free(3, "maxComments")]
	canDelete := c.Free(2, "reporter") == 0
	showDups := c.Free(2, "showDuplicates") == 1
	u := universe()
	// two 5-problem universes keep each search small: variant 0 drops the same-summary/other-details
	// problem, variant 1 drops the problem on the second rule
	if c.Free(2, "universe") == 0 {
		u = u[:5]
	} else {
		u = append(append([]reporter.Report{}, u[:4]...), u[5])
	}
	stale := reporter.VerifComment{Path: u[0].Path.SymlinkTarget, Line: 6, Text: "stale comment left by an earlier pint run\n"}
	eq := reporter.VerifPendingFor(u[:1], showDups)
	initial := [][]reporter.VerifComment{{}, {stale}, eq, append([]reporter.VerifComment{stale}, eq...)}
	res := reporter.VerifC17BFS(u, initial, maxComments, canDelete, showDups)
	cs := &explore.Case{Input: map[string]any{"maxComments": maxComments, "canDelete": canDelete, "showDuplicates": showDups, "problem_universe": 5, "initial_stores": len(initial), "sample_state": res.SampleState},
		Outcome: fmt.Sprintf("states=%d", res.States)}
	cs.Count("states", int64(res.States))
	cs.Count("transitions", int64(res.Transitions))
	cs.Count("traces_validated_against_impl", int64(res.Transitions))
	cs.Count("max_depth", int64(res.MaxDepth))
	seen := map[string]bool{}
	for _, v := range res.Violations {
		if seen[v.Sig] {
			continue
		}
		seen[v.Sig] = true
		cs.Violate(fmt.Sprintf("%s canDelete=%v", v.Sig, canDelete), v.What, map[string]any{"event_path": v.Path, "maxComments": maxComments, "showDuplicates": showDups})
	}
	return cs
}

// gitlabBody: the platform layer. The real GitLabReporter talks HTTP to a stateful fake of the discussions API;
// threads gain replies by other users and system notes between runs.
var tier string

func gitlabBody(c *explore.Chooser) *explore.Case {
	maxComments := []int{1, 50}[c.Free(2, "maxComments")]
	showDups := c.Free(2, "showDuplicates") == 1
	all := universe()
	u := []reporter.Report{all[0], all[1], all[3]} // two problems sharing a comment, one in a second file
	if tier == "thorough" {
		u = append(u, all[2]) // another check on the same lines
	}
	stale := reporter.VerifGLDisc{Notes: []reporter.VerifGLNote{{Author: "pint", Body: "stale comment left by an earlier pint run\n", Path: u[0].Path.SymlinkTarget, Line: 6}}}
	staleReplied := reporter.VerifGLDisc{Notes: append(append([]reporter.VerifGLNote{}, stale.Notes...), reporter.VerifGLNote{Author: "other", Body: "why?", Path: u[0].Path.SymlinkTarget, Line: 6})}
	eq := reporter.VerifGLPendingFor(u[:1], showDups, "pint")
	foreignEq := reporter.VerifGLPendingFor(u[:1], showDups, "other") // somebody else's comment with the very same text
	general := reporter.VerifGLDisc{Notes: []reporter.VerifGLNote{{Author: "pint", Body: "general comment without position"}}}
	initial := [][]reporter.VerifGLDisc{{}, {stale}, eq, foreignEq, {staleReplied, general}}
	res := reporter.VerifC17GitLabBFS(u, initial, maxComments, showDups)
	cs := &explore.Case{Input: map[string]any{"platform": "gitlab", "maxComments": maxComments, "showDuplicates": showDups, "problem_universe": len(u), "initial_stores": len(initial), "sample_state": res.SampleState},
		Outcome: fmt.Sprintf("gitlab states=%d", res.States)}
	cs.Count("states", int64(res.States))
	cs.Count("transitions", int64(res.Transitions))
	cs.Count("traces_validated_against_impl", int64(res.Transitions))
	cs.Count("gitlab_states", int64(res.States))
	cs.Count("gitlab_transitions", int64(res.Transitions))
	cs.Count("max_depth", int64(res.MaxDepth))
	seen := map[string]bool{}
	for _, v := range res.Violations {
		if seen[v.Sig] {
			continue
		}
		seen[v.Sig] = true
		cs.Violate(fmt.Sprintf("gitlab: %s", v.Sig), v.What, map[string]any{"event_path": v.Path, "maxComments": maxComments, "showDuplicates": showDups})
	}
	return cs
}

// githubBody: the real GithubReporter against a stateful fake of the review-comments API; the patch of the
// first file decides where comments on unmodified lines are moved to.
func githubBody(c *explore.Chooser) *explore.Case {
	maxComments := []int{1, 50}[c.Free(2, "maxComments")]
	patch := []string{"all-added", "partial"}[c.Free(2, "patch")]
	showDups := c.Free(2, "showDuplicates") == 1
	all := universe()
	// shared comment, other check same lines, problem on an unmodified line (8), second file; with the partial patch
	// a problem anchored on the old side of the diff at the line of the first ones (old and new numbering differ
	// there) replaces the other-check one - a removed rule cannot sit in a file that is new in the pull request
	u := []reporter.Report{all[0], all[1], all[2], all[4], all[3]}
	if patch == "partial" {
		u = []reporter.Report{all[0], all[1], all[6], all[4], all[3]}
	}
	patches := map[string]string{u[0].Path.SymlinkTarget: reporter.VerifGHPatch(patch), u[4].Path.SymlinkTarget: reporter.VerifGHPatch("all-added")}
	foreign := reporter.VerifComment{Path: u[0].Path.SymlinkTarget, Line: 4, Text: "a comment by somebody else\n"}
	eq := reporter.VerifPendingFor(u[:1], showDups)
	initial := [][]reporter.VerifComment{{}, {foreign}, eq}
	res := reporter.VerifC17GitHubBFS(u, initial, patches, maxComments, showDups)
	cs := &explore.Case{Input: map[string]any{"platform": "github", "maxComments": maxComments, "patch": patch, "showDuplicates": showDups, "problem_universe": len(u), "initial_stores": len(initial), "sample_state": res.SampleState},
		Outcome: fmt.Sprintf("github states=%d", res.States)}
	cs.Count("states", int64(res.States))
	cs.Count("transitions", int64(res.Transitions))
	cs.Count("traces_validated_against_impl", int64(res.Transitions))
	cs.Count("github_states", int64(res.States))
	cs.Count("github_transitions", int64(res.Transitions))
	cs.Count("max_depth", int64(res.MaxDepth))
	seen := map[string]bool{}
	for _, v := range res.Violations {
		if seen[v.Sig] {
			continue
		}
		seen[v.Sig] = true
		cs.Violate(fmt.Sprintf("github: %s patch=%s", v.Sig, patch), v.What, map[string]any{"event_path": v.Path, "maxComments": maxComments, "showDuplicates": showDups, "patch": patch})
	}
	return cs
}

// orders: what is commented must not depend on the order in which the reports of a run arrive (workers deliver
// them in any order). Universe: a problem, the same problem seen through a symlink to the same file, another
// check on the same lines, a problem in a second file; every subset x every arrival order.
func orders(c *explore.Chooser) *explore.Case {
	all := universe()
	twin := all[0]
	twin.Path.Name = strings.TrimSuffix(twin.Path.Name, "a.yml") + "symlink.yml"
	u := []reporter.Report{all[0], twin, all[2], all[3]}
	mask := 1 + c.Free(1<<len(u)-1, "reports")
	showDups := c.Free(2, "showDuplicates") == 1
	var sel []reporter.Report
	for i, r := range u {
		if mask&(1<<i) != 0 {
			sel = append(sel, r)
		}
	}
	// a permutation of sel by repeated choice
	rest := append([]reporter.Report(nil), sel...)
	var perm []reporter.Report
	var order []int
	for len(rest) > 0 {
		k := c.Free(len(rest), fmt.Sprintf("next%d", len(perm)))
		perm = append(perm, rest[k])
		order = append(order, k)
		rest = append(rest[:k], rest[k+1:]...)
	}
	ref := fmt.Sprint(reporter.VerifPendingFor(sel, showDups))
	got := fmt.Sprint(reporter.VerifPendingFor(perm, showDups))
	input := map[string]any{"reports_mask": mask, "arrival_order": order, "showDuplicates": showDups}
	cs := &explore.Case{Input: input, Key: fmt.Sprint(mask, order, showDups), Outcome: "orders"}
	if ref != got {
		cs.Violate("orders: comments depend on the arrival order of the reports", fmt.Sprintf("reports arriving in order %v give comments\n%s\nin the canonical order they give\n%s", order, got, ref), input)
	}
	return cs
}

func main() {
	reporter.VerifTick = explore.Heartbeat
	explore.Main(&explore.Config{
		Property: "C17", Level: "model_checking",
		Rule: "for each parameter cell (maxComments in {1,2,50} x reporter can/cannot delete x showDuplicates) a breadth-first search to closure over comment-store states: events run(R) for all 32 subsets R of each of two 5-problem universes drawn from (two problems of one check on the same lines, a third with the same summary but other details, another check on those lines, a second file, the same problem on another rule), initial stores {empty, stale pint comment, comment already equal to a pending one, both}; every transition calls the real reporter.Submit on a store whose equality / budget / deletion rules are the real GitLab and GitHub methods; budget, no-duplicate, coverage, stale-removal, idempotence and convergence invariants on every transition; platform layer: the same search through the real GitLabReporter (List/Create/Delete/Summary over HTTP) against a stateful fake of the merge-request discussions API, 3-problem universe (4 at thorough), maxComments in {1,50} x showDuplicates, initial stores {empty, stale pint thread, thread equal to a pending comment, another user's comment with the same text, stale thread with a reply + a general comment}, environment events reply(thread) and system-note(thread) on pint's threads, plus foreign-discussion-untouched and API-use invariants; and through the real GithubReporter (Destinations/List/Create/IsEqual with its line fixing/Summary) against a stateful fake of the review-comments API: 5-problem universe incl. a problem on an unmodified line and (partial patch) one anchored on the old side of the diff, patch of the first file in {all lines added, only lines 4-5 modified}, maxComments in {1,50} x showDuplicates, initial stores {empty, somebody else's comment, a comment equal to a pending one}; space orders: every subset of a 4-report universe (a problem, its twin seen through a symlink, another check, a second file) x every arrival order: the comments must equal those of the canonical order",
		Assumptions: []string{
			"cells space: the store is an in-memory Commenter whose List only returns pint's own comments; which comments are pint's own is decided by the platform code, covered by the gitlab space (GitHub's List does not filter by author and cannot delete, so it has no such decision)",
			"gitlab space: discussions that are not pint's are kept as a set (List skips them, so their multiplicity cannot influence a run); at most one reply and one system note per thread",
			"every transition is executed by the implementation itself (no separate model), hence traces_validated_against_impl = transitions",
		},
		Spaces: []*explore.Space{
			{Name: "cells", Body: body, Bound: func(string) int { return -1 }},
			{Name: "gitlab", Body: gitlabBody, Setup: func(t string) { tier = t }, Bound: func(string) int { return -1 }},
			{Name: "github", Body: githubBody, Bound: func(string) int { return -1 }},
			{Name: "orders", Body: orders, Bound: func(string) int { return -1 }},
		},
		BudgetS: func(t string) int {
			if t == "thorough" {
				return 2400
			}
			return 600
		},
	})
}
