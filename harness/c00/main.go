// c00 is the engine self-test: a tiny tree with a known number of executions per bound.
package main

import (
	"fmt"

	"github.com/cloudflare/pint/verifharness/explore"
)

func main() {
	explore.Main(&explore.Config{
		Property: "C00", Level: "exploration", Rule: "selftest",
		Spaces: []*explore.Space{{
			Name:  "t",
			Bound: func(t string) int { if t == "quick" { return 2 }; return -1 },
			Body: func(c *explore.Chooser) *explore.Case {
				a := c.Choose(3, "a")
				b := c.Choose(3, "b")
				d := c.Choose(3, "d")
				e := c.Free(2, "e")
				cs := &explore.Case{Input: []int{a, b, d, e}, Outcome: fmt.Sprint(a + b + d)}
				if a == 2 && b == 2 && e == 1 {
					cs.Violate("a2b2e1", "test violation", nil)
				}
				return cs
			},
		}},
	})
}
