// c07: control comments suppress exactly the targeted check on the targeted rules. DESIGN.md §2 C07.
package main

import (
	"context"
	"fmt"
	"sort"
	"strings"

	"github.com/prometheus/common/model"

	"github.com/cloudflare/pint/internal/checks"
	"github.com/cloudflare/pint/internal/config"
	"github.com/cloudflare/pint/internal/parser"
	"github.com/cloudflare/pint/verifharness/explore"
	"github.com/cloudflare/pint/verifharness/lib/fixtures"
	"github.com/cloudflare/pint/verifharness/lib/pipeline"
)

type env struct {
	cfg config.Config
	gen *config.PrometheusGenerator
}

var envs [4]env // plain, locked, plain + a rule{} block that names every check in `enable`, unlocked block then the same block locked

func setup(string) {
	for i, locked := range []bool{false, true} {
		cfg, err := pipeline.LoadConfig(fixtures.OfflineConfig(locked))
		if err != nil {
			panic(err)
		}
		envs[i] = env{cfg, pipeline.Generator(cfg)}
	}
	// rule{enable=[...]} only re-enables what checks{disabled} turned off; control comments still win
	// (docs/configuration.md), so this config must behave exactly like the plain one
	var names []string
	for _, n := range checks.CheckNames {
		names = append(names, fmt.Sprintf("%q", n))
	}
	cfg, err := pipeline.LoadConfig(fixtures.OfflineConfig(false) + "\nrule {\n  enable = [" + strings.Join(names, ", ") + "]\n}\n")
	if err != nil {
		panic(err)
	}
	envs[2] = env{cfg, pipeline.Generator(cfg)}
	// the same checks twice: from an unlocked block first, then from a locked one. A rule-level comment silences
	// the unlocked copy only.
	cfg, err = pipeline.LoadConfig(fixtures.OfflineConfig(false) + fixtures.OfflineConfig(true))
	if err != nil {
		panic(err)
	}
	envs[3] = env{cfg, pipeline.Generator(cfg)}
}

type item struct {
	Rule, Reporter, Check, Text string
	First, Last                 int
	DiagLines                   []int
	FromConfigBlock             bool
}

func (it item) key(adj func(int) int) string {
	var dl []string
	for _, l := range it.DiagLines {
		dl = append(dl, fmt.Sprint(adj(l)))
	}
	return fmt.Sprintf("%s|%s|%s|%d-%d|%s", it.Rule, it.Reporter, it.Text, adj(it.First), adj(it.Last), strings.Join(dl, ","))
}

func run(e env, content string) ([]item, string) {
	entries, crash := pipeline.Parse("rules.yml", []byte(content), true, parser.PrometheusSchema, model.UTF8Validation)
	if crash != nil {
		return nil, "parse crash " + crash.Site
	}
	for _, en := range entries {
		if en.PathError != nil || en.Rule.Error.Err != nil {
			return nil, fmt.Sprintf("generated file does not parse: %v %v", en.PathError, en.Rule.Error.Err)
		}
	}
	ds, crash := pipeline.LintDetailed(context.Background(), config.LintCommand, e.cfg, e.gen, entries)
	if crash != nil {
		return nil, "check crash " + crash.Site
	}
	var out []item
	for _, d := range ds {
		r := d.Report
		it := item{Rule: r.Rule.Name(), Reporter: r.Problem.Reporter, Check: d.Check, First: r.Problem.Lines.First, Last: r.Problem.Lines.Last}
		it.Text = fmt.Sprintf("%s/%s/%s", r.Problem.Severity, r.Problem.Summary, r.Problem.Details)
		for _, dg := range r.Problem.Diagnostics {
			it.Text += fmt.Sprintf("/%s[%d-%d]", dg.Message, dg.FirstColumn, dg.LastColumn)
			for _, p := range dg.Pos {
				it.DiagLines = append(it.DiagLines, p.Line)
			}
		}
		out = append(out, it)
	}
	return out, ""
}

// reporters that come from the rule{} config block (subject to `locked`)
var configReporters = map[string]bool{"promql/aggregate": true, "rule/label": true, "alerts/annotation": true, "rule/for": true, "rule/name": true, "rule/reject": true, "rule/report": true, "promql/range_query": true}

var forms = []string{"disable N", "disable check.String()", "snooze future N", "snooze past N", "snooze date N", "file/disable N", "file/snooze future N", "file/snooze past N", "file/disable check.String()"}

const future, past = "2099-11-28T10:24:18Z", "2000-11-28T10:24:18Z"

func body(c *explore.Chooser) *explore.Case {
	locked := c.Free(4, "config")
	e := envs[locked]
	nrules := 1 + c.Free(2, "nrules")
	a := c.Free(len(fixtures.Palette), "ruleA")
	rules := []fixtures.Rule{fixtures.Palette[a]}
	if nrules == 2 {
		b := c.Free(len(fixtures.Palette), "ruleB")
		if b == a {
			return &explore.Case{Skip: true}
		}
		rules = append(rules, fixtures.Palette[b])
	}
	header := []string{"groups:", "- name: g", "  rules:"}
	var lines []string
	lines = append(lines, header...)
	starts := make([]int, len(rules)) // index in lines of each rule's first line
	ends := make([]int, len(rules))
	for i, r := range rules {
		starts[i] = len(lines)
		for _, l := range r.Lines {
			lines = append(lines, "  "+l)
		}
		ends[i] = len(lines) - 1
	}
	base := strings.Join(lines, "\n") + "\n"
	before, herr := run(e, base)
	if herr != "" {
		cs := &explore.Case{Input: base}
		cs.Violate("harness:"+herr, herr, base)
		return cs
	}
	if len(before) == 0 {
		return &explore.Case{Skip: true}
	}
	// (rule, reporter) pairs present
	type pair struct{ rule, reporter string }
	var pairs []pair
	seen := map[pair]bool{}
	for _, it := range before {
		p := pair{it.Rule, it.Reporter}
		if !seen[p] && it.Rule != "" {
			seen[p] = true
			pairs = append(pairs, p)
		}
	}
	sort.Slice(pairs, func(i, j int) bool { return pairs[i].rule+pairs[i].reporter < pairs[j].rule+pairs[j].reporter })
	pi := c.Free(len(pairs), "pair")
	target := pairs[pi]
	ti := 0
	for i, r := range rules {
		if r.Name == target.rule {
			ti = i
		}
	}
	form := c.Free(len(forms), "form")
	fileLevel := strings.HasPrefix(forms[form], "file/")
	// the check instance to name for the String() forms: first instance reporting under N on the target
	checkString := ""
	for _, it := range before {
		if it.Rule == target.rule && it.Reporter == target.reporter {
			checkString = it.Check
			break
		}
	}
	var comment string
	switch forms[form] {
	case "disable N":
		comment = "# pint disable " + target.reporter
	case "disable check.String()":
		comment = "# pint disable " + checkString
	case "snooze future N":
		comment = "# pint snooze " + future + " " + target.reporter
	case "snooze past N":
		comment = "# pint snooze " + past + " " + target.reporter
	case "snooze date N":
		comment = "# pint snooze 2099-01-01 " + target.reporter
	case "file/disable N":
		comment = "# pint file/disable " + target.reporter
	case "file/snooze future N":
		comment = "# pint file/snooze " + future + " " + target.reporter
	case "file/snooze past N":
		comment = "# pint file/snooze " + past + " " + target.reporter
	case "file/disable check.String()":
		comment = "# pint file/disable " + checkString
	}
	out := append([]string(nil), lines...)
	orig := make([]int, len(lines)) // original 1-based line number of every output line, 0 = inserted
	for i := range orig {
		orig[i] = i + 1
	}
	// insert before the line that ORIGINALLY had index `at` in lines (robust against earlier insertions)
	insert := func(at int, l string) {
		pos := len(out)
		for i, o := range orig {
			if o == at+1 {
				pos = i
				break
			}
		}
		out = append(out[:pos], append([]string{l}, out[pos:]...)...)
		orig = append(orig[:pos], append([]int{0}, orig[pos:]...)...)
	}
	appendTo := func(at int, suffix string) {
		for i, o := range orig {
			if o == at+1 {
				out[i] += suffix
			}
		}
	}
	// prelude: an earlier comment that must not interfere with the main one
	prelude := c.Free(5, "prelude")
	preludeName := []string{"none", "expired file/snooze of the same check on top", "expired snooze of the same check above the rule", "file/disable of another check on top", "same comment twice"}[prelude]
	otherReporter := ""
	var placement string
	if fileLevel {
		k := c.Free(4, "file-placement")
		placement = []string{"top", "between-rules", "bottom", "trailing-on-groups-line"}[k]
		switch k {
		case 0:
			insert(0, comment)
		case 1:
			if len(rules) < 2 {
				return &explore.Case{Skip: true}
			}
			insert(starts[1], comment)
		case 2:
			out = append(out, comment)
			orig = append(orig, 0)
		case 3:
			appendTo(0, " "+comment)
		}
	} else {
		k := c.Free(9, "rule-placement")
		placement = []string{"above-rule", "trailing-first-line", "between-fields", "after-last-field", "trailing-last-line", "above-rule-after-blank", "end-of-first-nested-block", "end-of-last-nested-block", "end-of-last-nested-block-then-blank"}[k]
		// last lines of the rule's nested mappings (labels:, annotations:): a comment at the nested indentation right
		// after them is a foot comment of the last nested key and belongs to this rule even when another rule follows
		// (added after seed C07_4)
		var nestedEnds []int
		for j := starts[ti]; j <= ends[ti]; j++ {
			if strings.HasPrefix(lines[j], "      ") && (j == ends[ti] || !strings.HasPrefix(lines[j+1], "      ")) {
				nestedEnds = append(nestedEnds, j)
			}
		}
		if k >= 6 && (prelude != 0 || len(nestedEnds) == 0) {
			return &explore.Case{Skip: true}
		}
		switch k {
		case 6:
			insert(nestedEnds[0]+1, "      "+comment)
		case 7, 8:
			if k == 7 && len(nestedEnds) == 1 {
				return &explore.Case{Skip: true} // same as 6
			}
			at := nestedEnds[len(nestedEnds)-1] + 1
			insert(at, "      "+comment)
			if k == 8 {
				insert(at, "") // lands between the comment and the next line
			}
		case 0:
			insert(starts[ti], "  "+comment)
		case 1:
			appendTo(starts[ti], " "+comment)
		case 2:
			insert(starts[ti]+2, "    "+comment)
		case 3:
			if ti != len(rules)-1 {
				// directly followed by another rule: YAML does not say whose comment this is
				return &explore.Case{Skip: true}
			}
			out = append(out, "    "+comment)
			orig = append(orig, 0)
		case 4:
			appendTo(ends[ti], " "+comment)
		case 5:
			if ti == 0 {
				return &explore.Case{Skip: true}
			}
			insert(starts[ti], "")
			insert(starts[ti], "  "+comment)
		}
	}
	switch prelude {
	case 1:
		insert(0, "# pint file/snooze "+past+" "+target.reporter)
	case 2:
		insert(starts[ti], "  # pint snooze "+past+" "+target.reporter)
	case 3:
		for _, p := range pairs {
			if p.reporter != target.reporter {
				otherReporter = p.reporter
				break
			}
		}
		if otherReporter == "" {
			return &explore.Case{Skip: true}
		}
		insert(0, "# pint file/disable "+otherReporter)
	case 4:
		if fileLevel {
			insert(0, comment)
		} else {
			insert(starts[ti], "  "+comment)
		}
	}
	newLine := map[int]int{}
	for i, o := range orig {
		if o > 0 {
			newLine[o] = i + 1
		}
	}
	adj := func(l int) int {
		if n, ok := newLine[l]; ok {
			return n
		}
		return l
	}
	text := strings.Join(out, "\n") + "\n"
	after, herr := run(e, text)
	input := map[string]any{"file": text, "target_rule": target.rule, "reporter": target.reporter, "comment": comment, "placement": placement, "locked_config": locked == 1, "rule_enable_config": locked == 2, "unlocked_then_locked_config": locked == 3, "prelude": preludeName}
	cs := &explore.Case{Input: input, Key: fmt.Sprintf("%d", locked) + text}
	if herr != "" {
		cs.Violate("harness:"+herr, herr, input)
		return cs
	}
	// expected result
	expired := strings.Contains(forms[form], "past")
	byString := strings.Contains(forms[form], "String()")
	// config 3: the locked copy of every config check keeps reporting the very same problem (identical reports
	// are folded), so a rule-level comment changes nothing there either
	lockedApplies := (locked == 1 || locked == 3) && !fileLevel && configReporters[target.reporter]
	var want []string
	removed := 0
	for _, it := range before {
		drop := false
		if !expired && !lockedApplies && it.Reporter == target.reporter && (fileLevel || it.Rule == target.rule) {
			if !byString || it.Check == checkString {
				drop = true
			}
		}
		if otherReporter != "" && it.Reporter == otherReporter {
			drop = true // the prelude's own file/disable
		}
		if drop {
			removed++
			continue
		}
		want = append(want, it.key(adj))
	}
	var got []string
	for _, it := range after {
		got = append(got, it.key(func(l int) int { return l }))
	}
	sort.Strings(want)
	sort.Strings(got)
	cs.Outcome = fmt.Sprintf("form=%s removed=%d", forms[form], min(removed, 2))
	if strings.Join(want, "\n") != strings.Join(got, "\n") {
		missing, extra := diff(want, got)
		kind := "other-problems-changed"
		switch {
		case len(extra) > 0 && len(missing) == 0:
			kind = "not-suppressed"
			if expired || lockedApplies {
				kind = "unexpected-extra"
			}
		case len(missing) > 0 && len(extra) == 0:
			kind = "suppressed-too-much"
		}
		cs.Violate(fmt.Sprintf("%s form=%s placement=%s locked=%v prelude=%s", kind, forms[form], placement, lockedApplies, preludeName),
			fmt.Sprintf("comment %q (%s) on rule %s: problems that should have stayed but are gone: %v; problems that should be gone but are there (or new): %v", comment, placement, target.rule, missing, extra), input)
	}
	return cs
}

func diff(want, got []string) (missing, extra []string) {
	w := map[string]int{}
	for _, s := range want {
		w[s]++
	}
	for _, s := range got {
		if w[s] > 0 {
			w[s]--
		} else {
			extra = append(extra, s)
		}
	}
	for s, n := range w {
		for ; n > 0; n-- {
			missing = append(missing, s)
		}
	}
	sort.Strings(missing)
	return missing, extra
}

func main() {
	explore.Main(&explore.Config{
		Property: "C07", Level: "exploration",
		Rule: "all 1- and 2-rule strict files over a 13-rule palette under a config enabling every configurable offline check kind; for every (rule, reporter) pair in the baseline report x 9 comment forms (disable/snooze by name and by check String(), RFC3339 and date timestamps, future/past, file-level variants) x 9 rule placements (the last three, at the end of a nested labels/annotations block, without prelude) / 4 file placements x 5 preludes (none, expired file/snooze or snooze of the same check earlier, file/disable of another check, the comment twice) x {plain, locked, plain + rule{enable=[every check]}, unlocked block followed by the same block locked} config: the multiset of (rule, reporter, severity, summary, details, diagnostics, line ranges) after must equal before minus exactly the targeted slice, shifted by the inserted lines. Complete product (no deviation bound).",
		Assumptions: []string{
			"snooze timestamps are decades away from now, so the wall clock cannot flip a verdict",
			"'after the last field' is only generated for the last rule of a file: directly followed by another list item YAML does not define whose comment it is",
			"locked only shields checks created by the rule{} block against rule-level comments; file-level comments still apply (as in isEnabled)",
		},
		Spaces: []*explore.Space{{Name: "comments", Body: body, Setup: setup, Bound: func(string) int { return -1 }}},
		BudgetS: func(t string) int {
			if t == "thorough" {
				return 1500
			}
			return 900
		},
	})
}
