// c16: promql/series verdicts agree with what the server actually holds. DESIGN.md §2 C16.
package main

import (
	"context"
	"fmt"
	"strings"
	"time"

	"github.com/prometheus/common/model"
	"github.com/prometheus/prometheus/model/labels"
	"github.com/prometheus/prometheus/promql"
	promParser "github.com/prometheus/prometheus/promql/parser"

	"github.com/cloudflare/pint/internal/checks"
	"github.com/cloudflare/pint/internal/config"
	"github.com/cloudflare/pint/internal/parser"
	"github.com/cloudflare/pint/internal/promapi"
	"github.com/cloudflare/pint/verifharness/explore"
	"github.com/cloudflare/pint/verifharness/lib/pipeline"
	"github.com/cloudflare/pint/verifharness/lib/promfake"
	"github.com/cloudflare/pint/verifharness/lib/promqlsim"
)

var (
	srv    *promfake.Server
	cfg    config.Config
	engine *promql.Engine
	now0   time.Time
	tier   string
)

const lookback = 6 * time.Hour

func setup(t string) {
	tier = t
	srv = promfake.New()
	engine = promqlsim.NewEngine()
	now0 = time.Now().Truncate(time.Minute)
	var err error
	cfg, err = pipeline.LoadConfig(fmt.Sprintf(`
prometheus "prom" {
  uri     = %q
  timeout = "30s"
  uptime  = "up"
}
checks {
  enabled = ["promql/series"]
}
check "promql/series" {
  lookbackRange = "6h"
  lookbackStep  = "5m"
}
`, srv.HTTP.URL))
	if err != nil {
		panic(err)
	}
}

// presence patterns over the look-back window [now-6h, now], hours wide
var patterns = []string{"always", "never", "first-half", "second-half", "last-40m-missing", "intermittent", "only-before-window"}

func present(pat string, t time.Time) bool {
	age := now0.Sub(t)
	switch pat {
	case "always":
		return age <= 8*time.Hour
	case "never":
		return false
	case "first-half":
		return age >= 3*time.Hour && age <= 8*time.Hour
	case "second-half":
		return age <= 3*time.Hour
	case "last-40m-missing":
		return age >= 40*time.Minute && age <= 8*time.Hour
	case "intermittent":
		return age <= 8*time.Hour && (int(age/time.Hour)%2 == 0)
	case "only-before-window":
		return age >= 7*time.Hour && age <= 9*time.Hour
	}
	return false
}

func series(ls labels.Labels, pat string) promqlsim.Series {
	s := promqlsim.Series{Labels: ls}
	i := 0
	for t := now0.Add(-10 * time.Hour); !t.After(now0.Add(5 * time.Minute)); t = t.Add(time.Minute) {
		if present(pat, t) {
			s.Samples = append(s.Samples, promqlsim.Point{T: t.UnixMilli(), V: float64(1 + i)})
		}
		i++
	}
	return s
}

type exprT struct {
	text string
}

var exprs = []string{
	`m`, `m{l="v"}`, `m{l!="v"}`, `m{l=~"v|w"}`, `m{l="w"}`, `n`, `sum(m)`, `sum(m{l="v"}) by (l)`, `rate(m{l="w"}[5m])`,
	`m{l="v"} / n`, `m or n`, `sum(m{l="v"}) / sum(n{l="v"})`, `m{l="z"}`, `absent(m)`,
	// joins whose other operand has an always-returning fallback: only that operand is exempt
	`sum(m) / on() (sum(n) or vector(1))`, `m * on() group_left() (sum(n) or vector(1))`, `sum(n) / on() (sum(m{l="w"}) or vector(1))`,
}

// documented exemption by query shape: a metric wrapped in `... or vector(N)` is not checked
var fallbackExempt = map[string]string{
	`sum(m) / on() (sum(n) or vector(1))`:         "n",
	`m * on() group_left() (sum(n) or vector(1))`: "n",
	`sum(n) / on() (sum(m{l="w"}) or vector(1))`:  "m",
}

func body(c *explore.Chooser) *explore.Case {
	ei := c.Free(len(exprs), "expr")
	npat := 4
	if tier == "thorough" {
		npat = len(patterns)
	}
	pmv := patterns[c.Free(npat, "m{l=v}")]
	pmw := patterns[c.Free(npat, "m{l=w}")]
	pn := patterns[c.Free(3, "n{l=v}")]
	upGap := c.Free(2, "up-gap") == 1
	provided := c.Free(2, "recording-rule-provides-m") == 1
	exempt := c.Free(2, "disable-comment") == 1
	if tier != "thorough" && (upGap && provided) {
		return &explore.Case{Skip: true}
	}
	db := promqlsim.DB{
		series(labels.FromStrings("__name__", "m", "l", "v"), pmv),
		series(labels.FromStrings("__name__", "m", "l", "w"), pmw),
		series(labels.FromStrings("__name__", "n", "l", "v"), pn),
	}
	up := "always"
	if upGap {
		up = "intermittent"
	}
	db = append(db, series(labels.FromStrings("__name__", "up", "job", "prometheus"), up))
	srv.SetDB(db)

	var rules strings.Builder
	rules.WriteString("groups:\n- name: g\n  rules:\n")
	if exempt && !strings.Contains(exprs[ei], "m") {
		return &explore.Case{Skip: true}
	}
	if exempt {
		rules.WriteString("  # pint disable promql/series(m)\n")
	}
	fmt.Fprintf(&rules, "  - alert: A\n    expr: %s\n    for: 5m\n", exprs[ei])
	if provided {
		rules.WriteString("  - record: m\n    expr: sum(other) by (l)\n")
	}
	entries, crash := pipeline.Parse("rules.yml", []byte(rules.String()), true, parser.PrometheusSchema, model.UTF8Validation)
	if crash != nil {
		panic(crash.Value)
	}
	// only the alert is under test
	// a fresh client per case: the query cache of a FailoverGroup would otherwise carry answers over
	// from the previous database
	gen := pipeline.Generator(cfg)
	reports, crash := pipeline.Lint(context.Background(), config.LintCommand, cfg, gen, entries)
	gen.Stop()
	input := map[string]any{"expr": exprs[ei], "m{l=v}": pmv, "m{l=w}": pmw, "n{l=v}": pn, "up_has_gaps": upGap, "recording_rule_for_m": provided, "disable_comment": exempt}
	cs := &explore.Case{Input: input, Key: fmt.Sprint(input)}
	if crash != nil {
		cs.Violate("panic:"+crash.Site, crash.Value, input)
		return cs
	}
	node, err := promParser.ParseExpr(exprs[ei])
	if err != nil {
		panic(err)
	}
	var selectors []*promParser.VectorSelector
	promParser.Inspect(node, func(n promParser.Node, _ []promParser.Node) error {
		if vs, ok := n.(*promParser.VectorSelector); ok {
			selectors = append(selectors, vs)
		}
		return nil
	})
	type prob struct {
		sev      checks.Severity
		text     string
		from, to int
	}
	var probs []prob
	for _, r := range reports {
		if r.Problem.Reporter != "promql/series" || r.Rule.Name() != "A" {
			continue
		}
		if r.Problem.Summary == "invalid comment" {
			continue
		}
		if r.Problem.Summary == "unable to run checks" {
			cs.Violate("harness:server-unavailable", fmt.Sprint(r.Problem.Diagnostics), input)
			return cs
		}
		for _, d := range r.Problem.Diagnostics {
			probs = append(probs, prob{r.Problem.Severity, r.Problem.Summary + ": " + d.Message, d.FirstColumn - 1, d.LastColumn})
		}
	}
	outcome := "clean"
	for _, vs := range selectors {
		selText := vs.String()
		metric := vs.Name
		// what the server really holds
		vec, err := promqlsim.Instant(engine, db, selText, time.Now())
		if err != nil {
			panic(err)
		}
		hasNow := len(vec) > 0
		everInWindow := false
		for _, s := range db {
			if s.Labels.Get("__name__") != metric {
				continue
			}
			for _, p := range s.Samples {
				if t := time.UnixMilli(p.T); !t.Before(now0.Add(-lookback+10*time.Minute)) && !t.After(now0) {
					everInWindow = true
				}
			}
		}
		var mine []prob
		for _, p := range probs {
			if p.from <= int(vs.PosRange.Start) && int(vs.PosRange.End) <= p.to || strings.Contains(p.text, "`"+selText+"`") {
				mine = append(mine, p)
			}
		}
		// (i) the selector returns series right now: nothing may be reported about it
		if hasNow && len(mine) > 0 {
			cs.Violate(fmt.Sprintf("reported-although-present expr=%s", exprs[ei]), fmt.Sprintf("an instant query for %s returns %d series right now but promql/series reports: %s", selText, len(vec), mine[0].text), input)
			outcome = "violation"
		}
		// (ii) the metric had no sample at all in the window, nothing provides or exempts it: a Bug must be reported
		isProvided := provided && metric == "m"
		isExempt := exempt && metric == "m" || fallbackExempt[exprs[ei]] == metric
		inAbsent := strings.HasPrefix(exprs[ei], "absent(")
		if !everInWindow && !isProvided && !isExempt && !inAbsent {
			bug := false
			for _, p := range mine {
				if p.sev == checks.Bug {
					bug = true
				}
			}
			if !bug {
				cs.Violate(fmt.Sprintf("missing-metric-not-reported expr=%s", exprs[ei]), fmt.Sprintf("%s had no sample in the last %s, no rule produces it and nothing exempts it, but no Bug was reported (problems: %v)", metric, lookback, mine), input)
				outcome = "violation"
			} else if outcome == "clean" {
				outcome = "bug-reported"
			}
		} else if len(mine) > 0 && outcome == "clean" {
			outcome = "other-problem-reported"
		}
	}
	cs.Outcome = outcome
	return cs
}

// watch: one long-lived client (as `pint watch` keeps it) lints the same rule repeatedly while the database
// changes: the metric is absent at first and appears before the second or third iteration. The query cache runs on
// a clock owned by the harness (iterations every 1, 4 or 7 minutes, garbage collection every 2 minutes as the
// group's cleaner does). Once the metric has been there for longer than any instant-query cache lifetime (5m TTL +
// 2m collection interval; 10 minutes are required here), clause (i) applies again: nothing may be reported about a
// selector that currently returns series. Only the appearing direction is judged: range-query slices are cached
// under keys that contain wall-clock timestamps, which do not move in this harness.
func watch(c *explore.Chooser) *explore.Case {
	wexprs := []string{`m`, `m{l="v"}`, `sum(m)`, `m{l="v"} / n`, `rate(m{l="v"}[5m])`}
	ei := c.Free(len(wexprs), "expr")
	step := []time.Duration{time.Minute, 4 * time.Minute, 7 * time.Minute}[c.Free(3, "iteration-interval")]
	flipAt := 1 + c.Free(2, "appears-before-iteration")
	const iterations = 14
	mk := func(pm string) promqlsim.DB {
		return promqlsim.DB{
			series(labels.FromStrings("__name__", "m", "l", "v"), pm),
			series(labels.FromStrings("__name__", "n", "l", "v"), "always"),
			series(labels.FromStrings("__name__", "up", "job", "prometheus"), "always"),
		}
	}
	rules := fmt.Sprintf("groups:\n- name: g\n  rules:\n  - alert: A\n    expr: %s\n    for: 5m\n", wexprs[ei])
	entries, crash := pipeline.Parse("rules.yml", []byte(rules), true, parser.PrometheusSchema, model.UTF8Validation)
	if crash != nil {
		panic(crash.Value)
	}
	input := map[string]any{"expr": wexprs[ei], "iteration_interval": step.String(), "metric_appears_before_iteration": flipAt, "iterations": iterations}
	cs := &explore.Case{Input: input, Key: fmt.Sprint(input)}
	gen := pipeline.Generator(cfg)
	defer gen.Stop()
	fake := time.Now()
	var lastGC time.Time = fake
	for _, fg := range gen.Servers() {
		promapi.VerifFailoverSetClock(fg, func() time.Time { return fake })
	}
	var appeared time.Time
	judged := 0
	for it := 0; it < iterations; it++ {
		if it > 0 {
			// time passes; the cleaner runs every two minutes
			target := fake.Add(step)
			for fake.Before(target) {
				next := lastGC.Add(2 * time.Minute)
				if next.After(target) {
					fake = target
					break
				}
				fake, lastGC = next, next
				for _, fg := range gen.Servers() {
					promapi.VerifFailoverGC(fg)
				}
			}
		}
		if it < flipAt {
			srv.SetDB(mk("never"))
		} else {
			if appeared.IsZero() {
				appeared = fake
			}
			srv.SetDB(mk("always"))
		}
		reports, crash := pipeline.Lint(context.Background(), config.WatchCommand, cfg, gen, entries)
		if crash != nil {
			cs.Violate("panic:"+crash.Site, crash.Value, input)
			return cs
		}
		if appeared.IsZero() || fake.Sub(appeared) < 10*time.Minute {
			continue
		}
		judged++
		for _, r := range reports {
			if r.Problem.Reporter == "promql/series" && r.Rule.Name() == "A" && r.Problem.Summary != "unable to run checks" {
				for _, d := range r.Problem.Diagnostics {
					if strings.Contains(d.Message, "`m") || strings.Contains(d.Message, "m{") {
						cs.Violate("watch: reported-although-present-for-longer-than-any-cache-lifetime", fmt.Sprintf("iteration %d, %s after the metric appeared: %s: %s", it, fake.Sub(appeared), r.Problem.Summary, d.Message), input)
						cs.Outcome = "violation"
						return cs
					}
				}
			}
		}
	}
	cs.Outcome = fmt.Sprintf("watch judged=%d", min(judged, 1))
	return cs
}

// cleaner: the background goroutine that is the only thing that ever removes an expired answer from the cache
// must keep running: three rounds of store / let the TTL pass / wait for the eviction.
func cleaner(c *explore.Chooser) *explore.Case {
	rounds := 2 + c.Free(3, "rounds")
	got := promapi.VerifCleanerRounds(rounds, 400)
	cs := &explore.Case{Input: map[string]any{"rounds": rounds}, Key: fmt.Sprint("cleaner", rounds), Outcome: "cleaner"}
	if got != rounds {
		cs.Violate("cleaner: expired cache entries are no longer evicted", fmt.Sprintf("%d rounds of store / expire / wait: the background cleaner evicted the entry in %d of them (each round waited for 400 ticks of a reference ticker with the cleaner's interval)", rounds, got), cs.Input)
	}
	return cs
}

func main() {
	explore.Main(&explore.Config{
		Property: "C16", Level: "exploration",
		Rule: "17 rule expressions (selectors on metrics m,n with =, !=, =~ matchers and an absent label value, inside sum(), rate(), binary operations, `or`, absent()) x presence patterns over the 6h look-back window for m{l=v}, m{l=w} (quick: always/never/first-half/second-half; thorough adds last-40-minutes-missing, intermittent, only-before-the-window) and n{l=v} x uptime metric with/without gaps x with/without a recording rule producing m x with/without a disable comment; the database is served over real HTTP by a Prometheus-compatible API backed by the vendored PromQL engine to the real FailoverGroup and promql/series check (3 slices per range probe); space cleaner: the real background cacheCleaner on a fake clock must evict an expired entry in each of 2-4 consecutive rounds; space watch: one long-lived client lints 5 expressions 14 times while the metric appears before iteration 1 or 2, the query cache running on a harness-owned clock (iterations every 1/4/7 minutes, collection every 2 minutes), clause (i) judged once the metric has been present for 10 minutes; oracle (i) a selector that currently returns series draws no promql/series problem, (ii) a metric with no sample in the window that nothing provides or exempts draws a Bug",
		Assumptions: []string{
			"patterns are hours wide and a case takes milliseconds, so wall-clock drift cannot flip a verdict; the window edge is given 10 minutes of slack",
			"the engine-backed fake API (handler, JSON encoding, storage) is trusted",
		},
		Spaces: []*explore.Space{
			{Name: "cases", Body: body, Setup: setup, Bound: func(string) int { return -1 }},
			{Name: "watch", Body: watch, Setup: setup, Bound: func(string) int { return -1 }},
			{Name: "cleaner", Body: cleaner, Setup: setup, Bound: func(string) int { return -1 }},
		},
		BudgetS: func(t string) int {
			if t == "thorough" {
				return 2400
			}
			return 400
		},
		Finish: func(t string, agg *explore.Aggregate) ([]explore.Violation, string) {
			if agg.Outcomes["bug-reported"] < 50 || agg.Outcomes["clean"] < 50 {
				return nil, fmt.Sprintf("vacuity guard: outcomes %v", agg.Outcomes)
			}
			return nil, ""
		},
	})
}
