// c08: every check is switched on and off by the name it reports under. DESIGN.md §2 C08.
package main

import (
	"context"
	"fmt"
	"github.com/cloudflare/pint/verifharness/lib/pintbin"
	"os"
	"path/filepath"
	"regexp"
	"sort"
	"strings"

	"github.com/prometheus/common/model"

	"github.com/cloudflare/pint/internal/checks"
	"github.com/cloudflare/pint/internal/config"
	"github.com/cloudflare/pint/internal/discovery"
	"github.com/cloudflare/pint/internal/parser"
	"github.com/cloudflare/pint/verifharness/explore"
	"github.com/cloudflare/pint/verifharness/lib/fixtures"
	"github.com/cloudflare/pint/verifharness/lib/pipeline"
)

// an unreachable server: every online check reports "unable to run checks" under its own name, which is
// all the on/off property needs to be non-vacuous for the online names
const promBlock = `
prometheus "prom" {
  uri     = "http://127.0.0.1:1"
  timeout = "2s"
}
`

const onlineRuleBlock = `
rule {
  cost {
    maxSeries = 1
  }
  alerts {
    range   = "1h"
    step    = "1m"
    resolve = "5m"
  }
  link "https?://.+" {
    uri     = "http://127.0.0.1:1/"
    timeout = "1s"
  }
}
`

func rulesFile() string {
	var sb strings.Builder
	sb.WriteString("groups:\n- name: g\n  rules:\n")
	for _, r := range fixtures.Palette {
		for _, l := range r.Lines {
			sb.WriteString("  " + l + "\n")
		}
	}
	sb.WriteString(`  - alert: AbsentAlert
    expr: absent(foo_total)
    for: 5m
    labels:
      severity: page
    annotations:
      summary: http://example.com/link
  - alert: RateAlert
    expr: rate(foo_total[1m]) / on(job) group_left() bar > 0
    for: 5m
    labels:
      severity: page
      cluster: x
    annotations:
      summary: x
  - alert: TopkAlert
    expr: topk(3, foo) > 0
    for: 5m
    labels:
      severity: page
    annotations:
      summary: x
  - record: syntax:error
    expr: sum(foo
  - record: dup:rule
    expr: sum(up) by (job)
    labels:
      severity: none
  - record: dup:rule
    expr: sum(up) by (job)
    labels:
      severity: none
  - record: broken
    alert: Broken
    expr: up
`)
	return sb.String()
}

type item struct{ Rule, Reporter, Text string }

func run(cfgText string, tweak func(*config.Config), withRemoved bool) ([]item, string) {
	cfg, err := pipeline.LoadConfig(cfgText)
	if err != nil {
		return nil, "config rejected: " + err.Error()
	}
	if tweak != nil {
		tweak(&cfg)
	}
	gen := pipeline.Generator(cfg)
	defer gen.Stop()
	content := rulesFile()
	entries, crash := pipeline.Parse("rules.yml", []byte(content), true, parser.PrometheusSchema, model.UTF8Validation)
	if crash != nil {
		return nil, "parse crash"
	}
	// a removed provider with a remaining consumer, so that rule/dependency reports too
	prov, _ := pipeline.Parse("removed.yml", []byte("groups:\n- name: r\n  rules:\n  - record: dep:provider\n    expr: sum(up)\n"), true, parser.PrometheusSchema, model.UTF8Validation)
	cons, _ := pipeline.Parse("consumer.yml", []byte("groups:\n- name: c\n  rules:\n  - alert: Consumer\n    expr: dep:provider == 0\n    for: 5m\n    labels:\n      severity: page\n    annotations:\n      summary: x\n"), true, parser.PrometheusSchema, model.UTF8Validation)
	for i := range prov {
		prov[i].State = discovery.Removed
	}
	entries = append(entries, cons...)
	entries = append(entries, prov...)
	cmd := config.LintCommand
	if withRemoved {
		cmd = config.CICommand
		for i := range entries {
			if entries[i].State == discovery.Noop {
				entries[i].State = discovery.Modified
			}
		}
	}
	reports, crash := pipeline.Lint(context.Background(), cmd, cfg, gen, entries)
	if crash != nil {
		return nil, "check crash at " + crash.Site + ": " + crash.Value
	}
	var out []item
	for _, r := range reports {
		t := fmt.Sprintf("%s/%s/%d-%d", r.Problem.Severity, r.Problem.Summary, r.Problem.Lines.First, r.Problem.Lines.Last)
		for _, d := range r.Problem.Diagnostics {
			t += "/" + d.Message
		}
		out = append(out, item{r.Path.Name + ":" + r.Rule.Name(), r.Problem.Reporter, t})
	}
	sort.Slice(out, func(i, j int) bool { return fmt.Sprint(out[i]) < fmt.Sprint(out[j]) })
	return out, ""
}

type baselineT struct {
	items []item
	err   string
}

var baselines = map[string]baselineT{}

var baseCfg = promBlock + fixtures.OfflineConfig(false) + onlineRuleBlock

var unconditional = map[string]bool{"yaml/parse": true, "ignore/file": true, "pint/comment": true, "rule/owner": true}

var mechanisms = []string{"checks{disabled}", "--disabled", "rule{disable}", "--enabled", "checks{enabled}", "--disabled regexp", "--offline"}

var regexps = []string{"promql/.*", "alerts/.+", "rule/(label|name)", ".*/c.*"}

func filter(items []item, keep func(item) bool) (out []string) {
	for _, it := range items {
		if keep(it) {
			out = append(out, fmt.Sprint(it))
		}
	}
	return out
}

func body(c *explore.Chooser) *explore.Case {
	// optional rule{enable=[M]} block in the base config: it may only override checks{disabled}, never
	// widen --enabled / checks{enabled}
	enableBlocks := []string{"", "promql/aggregate", "rule/label", "promql/regexp", "promql/series"}
	eb := c.Free(len(enableBlocks), "rule-enable-block")
	baseCfg := baseCfg
	// `locked = true` on the rule{} block only shields its checks against rule-level disable/snooze comments;
	// every by-name mechanism must work on them exactly as without it
	locked := c.Free(2, "locked") == 1
	if locked {
		baseCfg = promBlock + fixtures.OfflineConfig(true) + onlineRuleBlock
	}
	if eb > 0 {
		baseCfg += "\nrule {\n  enable = [\"" + enableBlocks[eb] + "\"]\n}\n"
	}
	mech := c.Free(len(mechanisms), "mechanism")
	names := checks.CheckNames
	var n1, n2 string
	pair := false
	switch mechanisms[mech] {
	case "--disabled regexp":
		n1 = regexps[c.Free(len(regexps), "regexp")]
	case "--offline":
	default:
		n1 = names[c.Free(len(names), "name")]
		if c.Choose(2, "second-name") == 1 {
			n2 = names[c.Free(len(names), "name2")]
			if n2 == n1 {
				return &explore.Case{Skip: true}
			}
			pair = true
		}
	}
	list := []string{n1}
	if pair {
		list = append(list, n2)
	}
	quoted := `"` + strings.Join(list, `", "`) + `"`
	if _, ok := baselines[baseCfg]; !ok {
		b, e := run(baseCfg, nil, true)
		baselines[baseCfg] = baselineT{b, e}
	}
	before, herr := baselines[baseCfg].items, baselines[baseCfg].err
	input := map[string]any{"mechanism": mechanisms[mech], "names": list, "rule_enable_block": enableBlocks[eb], "locked_rule_block": locked}
	cs := &explore.Case{Input: input, Outcome: mechanisms[mech]}
	if herr != "" {
		cs.Violate("harness:"+herr, herr, nil)
		return cs
	}
	var after []item
	var wantKeep func(item) bool
	inList := func(r string) bool { return r == n1 || (pair && r == n2) }
	// documented: rule{enable=[M]} re-enables M for matching rules even if it is disabled globally
	reEnabled := func(r string) bool { return eb > 0 && r == enableBlocks[eb] }
	switch mechanisms[mech] {
	case "checks{disabled}":
		after, herr = run(baseCfg+"\nchecks {\n  disabled = ["+quoted+"]\n}\n", nil, true)
		wantKeep = func(it item) bool { return !inList(it.Reporter) || reEnabled(it.Reporter) }
	case "--disabled":
		after, herr = run(baseCfg, func(cfg *config.Config) { cfg.SetDisabledChecks(list) }, true)
		wantKeep = func(it item) bool { return !inList(it.Reporter) || reEnabled(it.Reporter) }
	case "rule{disable}":
		after, herr = run(baseCfg+"\nrule {\n  disable = ["+quoted+"]\n}\n", nil, true)
		wantKeep = func(it item) bool { return !inList(it.Reporter) }
	case "--enabled":
		after, herr = run(baseCfg, func(cfg *config.Config) { cfg.Checks.Enabled = list }, true)
		wantKeep = func(it item) bool { return inList(it.Reporter) || unconditional[it.Reporter] }
	case "checks{enabled}":
		after, herr = run(baseCfg+"\nchecks {\n  enabled = ["+quoted+"]\n}\n", nil, true)
		wantKeep = func(it item) bool { return inList(it.Reporter) || unconditional[it.Reporter] }
	case "--disabled regexp":
		re := regexp.MustCompile("^" + n1 + "$")
		after, herr = run(baseCfg, func(cfg *config.Config) { cfg.SetDisabledChecks([]string{n1}) }, true)
		wantKeep = func(it item) bool { return !re.MatchString(it.Reporter) || reEnabled(it.Reporter) }
	case "--offline":
		after, herr = run(baseCfg, func(cfg *config.Config) { cfg.DisableOnlineChecks() }, true)
		online := map[string]bool{}
		for _, n := range checks.OnlineChecks {
			online[n] = true
		}
		wantKeep = func(it item) bool { return !online[it.Reporter] || reEnabled(it.Reporter) }
	case "rule{enable} vs checks{disabled}":
		// a rule{enable=[N]} block re-enables N for matching rules even when it is globally disabled:
		// then nothing changes for N
		after, herr = run(baseCfg+"\nchecks {\n  disabled = ["+quoted+"]\n}\nrule {\n  enable = ["+quoted+"]\n}\n", nil, true)
		wantKeep = func(it item) bool { return true }
	}
	if herr != "" {
		cs.Violate("harness:"+herr, herr, input)
		return cs
	}
	want := filter(before, wantKeep)
	got := filter(after, func(item) bool { return true })
	byRep := map[string]int{}
	for _, it := range before {
		byRep[it.Reporter]++
	}
	for r := range byRep {
		cs.AddToSet("reporters_in_baseline", r)
	}
	if strings.Join(want, "\n") != strings.Join(got, "\n") {
		gone, extra := diff(want, got)
		reps := map[string]bool{}
		for _, s := range append(append([]string{}, gone...), extra...) {
			reps[strings.Split(strings.TrimPrefix(s, "{"), " ")[1]] = true
		}
		var rl []string
		for r := range reps {
			rl = append(rl, r)
		}
		sort.Strings(rl)
		cs.Violate(fmt.Sprintf("%s names=%v affected-reporters=%v", mechanisms[mech], list, rl),
			fmt.Sprintf("switching %v via %s: problems that should have stayed but are gone: %d, problems that should be gone but are there: %d", list, mechanisms[mech], len(gone), len(extra)),
			map[string]any{"input": input, "gone": head(gone), "unexpected": head(extra)})
	}
	return cs
}

func head(s []string) []string {
	if len(s) > 6 {
		return s[:6]
	}
	return s
}

func diff(want, got []string) (missing, extra []string) {
	w := map[string]int{}
	for _, s := range want {
		w[s]++
	}
	for _, s := range got {
		if w[s] > 0 {
			w[s]--
		} else {
			extra = append(extra, s)
		}
	}
	for s, n := range w {
		for ; n > 0; n-- {
			missing = append(missing, s)
		}
	}
	sort.Strings(missing)
	return missing, extra
}

// binaryFlags: the flags as the shipped command applies them (actionSetup). One run of the real binary per case;
// the expected reports are the reports of the plain run filtered by reporter name.
var binBaseline []pintbin.JSONReport

func binRun(cfgExtra string, flags ...string) ([]pintbin.JSONReport, string) {
	dir := pintbin.Scratch("c08bin")
	defer os.RemoveAll(dir)
	os.WriteFile(filepath.Join(dir, ".pint.hcl"), []byte(baseCfg+cfgExtra), 0o644)
	os.WriteFile(filepath.Join(dir, "rules.yml"), []byte(rulesFile()), 0o644)
	args := append([]string{"-c", ".pint.hcl", "-w", "4"}, flags...)
	args = append(args, "lint", "--json", "out.json", "rules.yml")
	res := pintbin.Run(dir, "out.json", nil, args...)
	if res.Panicked {
		return nil, "panic: " + res.Stderr
	}
	if !res.HasJSON {
		return nil, "no JSON report: " + res.Stderr
	}
	return res.Reports, ""
}

func repKey(r pintbin.JSONReport) string {
	return fmt.Sprintf("%s|%s|%s|%v", r.Reporter, r.Severity, r.Problem, r.Lines)
}

func binaryFlags(c *explore.Chooser) *explore.Case {
	if binBaseline == nil {
		b, herr := binRun("")
		if herr != "" {
			cs := &explore.Case{}
			cs.Violate("harness:binary-baseline", herr, nil)
			return cs
		}
		binBaseline = b
	}
	online := map[string]bool{}
	for _, n := range checks.OnlineChecks {
		online[n] = true
	}
	n := checks.CheckNames[c.Free(len(checks.CheckNames), "name")]
	combo := c.Free(6, "flags")
	var flags []string
	cfgExtra := ""
	keep := func(r pintbin.JSONReport) bool { return true }
	isN := func(r pintbin.JSONReport) bool { return r.Reporter == n }
	switch combo {
	case 0:
		flags = []string{"--enabled", n}
		keep = func(r pintbin.JSONReport) bool { return isN(r) || unconditional[r.Reporter] }
	case 1:
		flags = []string{"--offline", "--enabled", n}
		keep = func(r pintbin.JSONReport) bool { return (isN(r) && !online[n]) || unconditional[r.Reporter] }
	case 2:
		flags = []string{"--disabled", n}
		keep = func(r pintbin.JSONReport) bool { return !isN(r) }
	case 3:
		flags = []string{"--offline", "--disabled", n}
		keep = func(r pintbin.JSONReport) bool { return !isN(r) && !online[r.Reporter] }
	case 4:
		flags = []string{"--offline"}
		cfgExtra = "\nchecks {\n  enabled = [\"" + n + "\"]\n}\n"
		keep = func(r pintbin.JSONReport) bool { return (isN(r) && !online[n]) || unconditional[r.Reporter] }
	case 5:
		flags = []string{"--enabled", n, "--disabled", n}
		keep = func(r pintbin.JSONReport) bool { return unconditional[r.Reporter] }
	}
	input := map[string]any{"flags": strings.Join(flags, " "), "config_extra": cfgExtra}
	cs := &explore.Case{Input: input, Key: fmt.Sprint(flags, cfgExtra), Outcome: "binary"}
	got, herr := binRun(cfgExtra, flags...)
	if herr != "" {
		cs.Violate("binary: run failed flags="+[]string{"enabled", "offline+enabled", "disabled", "offline+disabled", "offline+checks{enabled}", "enabled+disabled"}[combo], herr, input)
		return cs
	}
	want := map[string]int{}
	for _, r := range binBaseline {
		if keep(r) {
			want[repKey(r)]++
		}
	}
	have := map[string]int{}
	for _, r := range got {
		have[repKey(r)]++
	}
	var missing, extra []string
	for k, v := range want {
		if have[k] < v {
			missing = append(missing, k)
		}
	}
	extraReporters := map[string]bool{}
	for _, r := range got {
		k := repKey(r)
		if have[k] > want[k] {
			extra = append(extra, k)
			extraReporters[r.Reporter] = true
		}
	}
	if len(missing)+len(extra) > 0 {
		var er []string
		for r := range extraReporters {
			er = append(er, r)
		}
		sort.Strings(er)
		sort.Strings(missing)
		sort.Strings(extra)
		if len(er) > 3 {
			er = append(er[:3], "...")
		}
		cs.Violate(fmt.Sprintf("binary: %s online-name=%v extra-reporters=%v missing=%v", []string{"enabled", "offline+enabled", "disabled", "offline+disabled", "offline+checks{enabled}", "enabled+disabled"}[combo], online[n], er, len(missing) > 0),
			fmt.Sprintf("pint %s: reports that should be there are missing: %v; reports that should not be there: %v", strings.Join(flags, " "), missing, extra), input)
	}
	return cs
}

func main() {
	explore.Main(&explore.Config{
		Property: "C08", Level: "exploration",
		Rule: "config enabling every configurable check kind + an unreachable Prometheus (every online check then reports under its own name) + a 17-rule file + a removed provider rule; for every name in checks.CheckNames x {checks{disabled}, --disabled, rule{disable}, --enabled, checks{enabled}, rule{enable} over checks{disabled}} (thorough: all ordered pairs of names), 4 --disabled regexps, and --offline: the report multiset must equal the baseline filtered by reporter name. distinct = (mechanism, names); space binary-flags: every check name x {--enabled, --offline --enabled, --disabled, --offline --disabled, --offline with checks{enabled}, --enabled with --disabled} through the real binary, reports compared with the plain run filtered by reporter name",
		Assumptions: []string{
			"space switches: CLI switches are applied the way actionSetup does (SetDisabledChecks, Checks.Enabled, DisableOnlineChecks); space binary-flags runs the real binary, so actionSetup itself is covered there",
			"entries are marked modified / removed and run under the ci command so that rule/dependency has a baseline report",
		},
		Spaces: []*explore.Space{{Name: "switches", Body: body, Bound: func(t string) int {
			if t == "thorough" {
				return 1
			}
			return 0
		}}, {Name: "binary-flags", Body: binaryFlags, Bound: func(string) int { return -1 }}},
		BudgetS: func(t string) int { return 900 },
		Finish: func(tier string, agg *explore.Aggregate) ([]explore.Violation, string) {
			have := agg.Sets["reporters_in_baseline"]
			var vac []string
			for _, n := range checks.CheckNames {
				if _, ok := have[n]; !ok {
					vac = append(vac, n)
				}
			}
			if len(vac) > 0 {
				return nil, fmt.Sprintf("vacuity guard: no baseline report for check names %v", vac)
			}
			return nil, ""
		},
	})
}
