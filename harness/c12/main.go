// c12: a 'dead code' report is never a false positive. DESIGN.md §2 C12.
package main

import (
	"context"
	"fmt"
	"os"
	"regexp"
	"slices"
	"sort"
	"strings"
	"time"

	"github.com/prometheus/common/model"
	"github.com/prometheus/prometheus/model/labels"
	"github.com/prometheus/prometheus/promql"
	promParser "github.com/prometheus/prometheus/promql/parser"

	"github.com/cloudflare/pint/internal/checks"
	"github.com/cloudflare/pint/internal/parser"
	"github.com/cloudflare/pint/internal/parser/utils"
	"github.com/cloudflare/pint/verifharness/explore"
	"github.com/cloudflare/pint/verifharness/lib/pipeline"
	"github.com/cloudflare/pint/verifharness/lib/promqlgen"
	"github.com/cloudflare/pint/verifharness/lib/promqlsim"
)

// the property's fragment: selectors, label-preserving functions, aggregations, arithmetic / comparison /
// set operators with matching modifiers, plus numbers and vector() operands for the static-comparison folding
var frag = promqlgen.Alphabet{
	Metrics:   []string{"foo", "bar"},
	Matchers:  []string{"", `a="x"`, `a!="x"`, `a=~"x|y"`, `a="x", b="x"`},
	Unary:     []string{"sum(%s)", "sum by(a) (%s)", "sum without(a) (%s)", "count by(a, b) (%s)", "min by(b) (%s)", "abs(%s)", "%s > 0", "%s * 2", "topk(1, %s)", "(%s)", "%s < 2", "%s == 1"},
	RangeFns:  []string{"rate(%s[5m])", "max_over_time(%s[5m])"},
	BinOps:    []string{"*", "/", ">", "==", "and", "or", "unless", "+", "<", "> bool", "!="},
	Modifiers: []string{"", "on(a)", "on()", "ignoring(b)", "on(a) group_left()", "on(a) group_left(c)", "ignoring(b) group_right()", "on(a, b)", "ignoring(a, b, c)"},
	Scalars:   []string{"1", "2", "0"},
	Extra:     []string{"vector(1)", "vector(2)", "vector(0)"},
}

var (
	chainOps     = []string{"and", "unless", "*", "=="}
	chainRight   = []string{"bar", "sum(bar)", "sum by(a) (bar)", "vector(1)", "sum by(a, b) (bar)"}
	chainUnary   = []string{"sum(%s)", "sum by(a) (%s)", "sum without(a) (%s)", "abs(%s)", "min by(b) (%s)", "%s > 0"}
	aggOuter     = []string{"sum without(a) (%s)", "sum without(b) (%s)", "sum by(a) (%s)", "sum(%s)", "min by(b) (%s)"}
	orAlts       = []string{"foo", `foo{a="x"}`, "sum(foo)", "sum by(a) (foo)", "vector(1)"}
	orRight      = []string{"bar", `bar{a="x"}`, "sum(bar)", "sum by(a) (bar)", "vector(1)"}
	richMatchers = []string{"", `a="x"`, `a=~".*"`, `a=~"x|"`, `a=~"(x)?"`, `a=~".+"`, `a=""`, `a=~""`, `a!=""`, `a!~"x"`, `a!~""`, `a=~"x|y", b=~".*"`}
	reOps        = []string{"and", "unless", "*"}
	reMod1       = []string{"", "on(a)", "ignoring(b)", "on(a, a)"}
	reAgg        = []string{"sum without(a) (%s)", "sum without(a, a) (%s)", "sum by(b) (%s)", "sum by(b, b) (%s)", "sum by(a, b) (%s)", "min without(a, c) (%s)", "sum(%s)"}
	reMod2       = []string{"on(b) group_left(a)", "on(b) group_left(a, a)", "ignoring(a) group_left(a)", "ignoring(a, a) group_left(a)", "ignoring(a, c) group_left(a)", "on(b) group_left()", "on(b, b) group_left(a)", "on(b) group_right(a)", "on(b) group_left(a, c)", "on(b) group_left(c, a)"}
	reSel3       = []string{"foo", "bar", `foo{a="x"}`}
	// a small alphabet for all expressions of <=3 operator nodes (thorough)
	mini = promqlgen.Alphabet{
		Metrics:   []string{"foo", "bar"},
		Matchers:  []string{"", `a="x"`},
		Unary:     []string{"sum(%s)", "sum by(a) (%s)", "sum without(a) (%s)", "abs(%s)"},
		BinOps:    []string{"and", "*"},
		Modifiers: []string{"", "on(a)", "on(b) group_left(a)"},
		Scalars:   []string{"1"},
		Extra:     []string{"vector(1)"},
	}
	// a reduced fragment whose <=2-operator expressions can all be examined within the thorough budget (the full
	// fragment has ~80 M of them): the thorough tier is complete for what it names, not a time-capped sample
	frag2 = promqlgen.Alphabet{
		Metrics:   []string{"foo", "bar"},
		Matchers:  []string{"", `a="x"`, `a!="x"`},
		Unary:     []string{"sum(%s)", "sum by(a) (%s)", "sum without(a) (%s)", "min by(b) (%s)", "abs(%s)", "%s > 0"},
		RangeFns:  []string{"rate(%s[5m])"},
		BinOps:    []string{"*", ">", "and", "or", "unless", "=="},
		Modifiers: []string{"", "on(a)", "on()", "ignoring(b)", "on(a) group_left()", "on(a) group_left(c)"},
		Scalars:   []string{"1", "0"},
		Extra:     []string{"vector(1)", "vector(0)"},
	}
)

var (
	engine  *promql.Engine
	evalAt  = time.Date(2024, 3, 10, 12, 0, 0, 0, time.UTC)
	pool    = map[string][]promqlsim.Series{}
	dbCache = map[string][]promqlsim.DB{}
	tier    string
)

var probe []string

func setup(t string) {
	tier = t
	if f := os.Getenv("VERIF_C12_PROBE"); f != "" {
		b, _ := os.ReadFile(f)
		for _, l := range strings.Split(string(b), "\n") {
			if strings.TrimSpace(l) != "" {
				probe = append(probe, l)
			}
		}
	}
	engine = promqlsim.NewEngine()
	for _, m := range []string{"foo", "bar"} {
		for _, a := range []string{"x", "y"} {
			for _, b := range []string{"x", "y"} {
				for _, c := range []string{"x", "y"} {
					for _, v := range []float64{0, 1, 2} {
						ls := labels.FromStrings("__name__", m, "a", a, "b", b, "c", c)
						pool[m] = append(pool[m], promqlsim.Steady(ls, evalAt.Add(-12*time.Minute), evalAt, v, false))
					}
				}
			}
		}
	}
}

// every database of <=k series (distinct label sets) of the metrics involved; every series carries a, b and c
func dbs(metrics map[string]bool, k int) []promqlsim.DB {
	var names []string
	for m := range metrics {
		names = append(names, m)
	}
	sort.Strings(names)
	key := fmt.Sprint(names, k)
	if d, ok := dbCache[key]; ok {
		return d
	}
	var p []promqlsim.Series
	for _, m := range names {
		p = append(p, pool[m]...)
	}
	out := []promqlsim.DB{{}}
	var rec func(start int, cur promqlsim.DB)
	rec = func(start int, cur promqlsim.DB) {
		if len(cur) == k {
			return
		}
		for i := start; i < len(p); i++ {
			dup := false
			for _, s := range cur {
				if labels.Equal(s.Labels, p[i].Labels) {
					dup = true
				}
			}
			if dup {
				continue
			}
			next := append(append(promqlsim.DB{}, cur...), p[i])
			out = append(out, next)
			rec(i+1, next)
		}
	}
	rec(0, nil)
	dbCache[key] = out
	return out
}

type deadReport struct {
	start, end int // byte range in the expression
	reason     string
}

func deadReports(expr string) ([]deadReport, string) {
	yaml := "- alert: A\n  expr: " + fmt.Sprintf("%q", expr) + "\n"
	entries, crash := pipeline.Parse("r.yml", []byte(yaml), false, parser.PrometheusSchema, model.UTF8Validation)
	if crash != nil || len(entries) != 1 || entries[0].Rule.AlertingRule == nil {
		return nil, "cannot build the alert rule"
	}
	// the check runs on a rule that other checks have analysed before it (alerts/comparison, alerts/template and
	// promql/fragile call LabelsSource on the same parsed expression first): analyse once, then take the verdict
	utils.LabelsSource(entries[0].Rule.Expr().Value.Value, entries[0].Rule.Expr().Query.Expr)
	var out []deadReport
	for _, p := range checks.NewImpossibleCheck().Check(context.Background(), entries[0], entries) {
		if p.Summary != "dead code in query" {
			continue
		}
		d := p.Diagnostics[0]
		out = append(out, deadReport{d.FirstColumn - 1, d.LastColumn, d.Message})
	}
	return out, ""
}

type candidate struct {
	whole   string // the operation
	without string // the operation with the flagged source replaced by a selector that matches nothing
}

func candidates(expr string, node promParser.Expr, d deadReport) []candidate {
	var out []candidate
	within := func(e promParser.Node) bool {
		r := e.PositionRange()
		return int(r.Start) <= d.start && d.end <= int(r.End)
	}
	promParser.Inspect(node, func(n promParser.Node, _ []promParser.Node) error {
		b, ok := n.(*promParser.BinaryExpr)
		if !ok {
			return nil
		}
		var o promParser.Expr
		switch {
		case within(b.LHS):
			o = b.LHS
		case within(b.RHS):
			o = b.RHS
		default:
			return nil
		}
		br := b.PositionRange()
		// the flagged source is the operand itself or, when the operand is a chain of `or` alternatives (each
		// alternative is a separate source that flows into this operation), the alternative holding the position
		for x := o; x != nil; {
			xr := x.PositionRange()
			whole := expr[br.Start:br.End]
			out = append(out, candidate{whole: whole, without: expr[br.Start:xr.Start] + "zzz_none" + expr[xr.End:br.End]})
			var next promParser.Expr
			inner := x
			for {
				if p, ok := inner.(*promParser.ParenExpr); ok {
					inner = p.Expr
					continue
				}
				break
			}
			if ib, ok := inner.(*promParser.BinaryExpr); ok && ib.Op == promParser.LOR {
				switch {
				case within(ib.LHS):
					next = ib.LHS
				case within(ib.RHS):
					next = ib.RHS
				}
			}
			x = next
		}
		// a static comparison ("`1 > 1` is not possible") is a statement about one source on EACH side, but it is
		// positioned at the left-hand one: the source it kills may just as well be an `or` alternative of the
		// other operand (`1 > (vector(0) or vector(1))`: the vector(1) alternative, which indeed never counts)
		if strings.Contains(d.reason, "always evaluates to") && b.Op.IsComparisonOperator() {
			other := b.RHS
			if o == b.RHS {
				other = b.LHS
			}
			var alts func(e promParser.Expr)
			alts = func(e promParser.Expr) {
				for {
					if p, ok := e.(*promParser.ParenExpr); ok {
						e = p.Expr
						continue
					}
					break
				}
				if ib, ok := e.(*promParser.BinaryExpr); ok && ib.Op == promParser.LOR {
					for _, side := range []promParser.Expr{ib.LHS, ib.RHS} {
						xr := side.PositionRange()
						out = append(out, candidate{whole: expr[br.Start:br.End], without: expr[br.Start:xr.Start] + "zzz_none" + expr[xr.End:br.End]})
						alts(side)
					}
				}
			}
			alts(other)
		}
		return nil
	})
	return out
}

func keyOf(v promql.Vector) map[string]bool {
	m := map[string]bool{}
	for _, s := range v {
		m[fmt.Sprintf("%s=%v", s.Metric.String(), s.F)] = true
	}
	return m
}

var (
	reTick   = regexp.MustCompile("`[^`]*`")
	reNum    = regexp.MustCompile(`[0-9]+`)
	reMetric = regexp.MustCompile(`\b(foo|bar)\b`)
)

var reReasonLabel = regexp.MustCompile("doesn't have the `([^`]+)` label")

// groupLabelFromLackingSide: the label the reason names is copied by a group_left/group_right(...) of some
// join in expr whose "one" side cannot carry it (pint's own analysis of that operand), so the copy never happens.
func groupLabelFromLackingSide(reason, expr string) bool {
	m := reReasonLabel.FindStringSubmatch(reason)
	if m == nil {
		return false
	}
	node, err := promParser.ParseExpr(expr)
	if err != nil {
		return false
	}
	found := false
	promParser.Inspect(node, func(n promParser.Node, _ []promParser.Node) error {
		b, ok := n.(*promParser.BinaryExpr)
		if !ok || b.VectorMatching == nil || !slices.Contains(b.VectorMatching.Include, m[1]) {
			return nil
		}
		one := b.RHS
		if b.VectorMatching.Card == promParser.CardOneToMany {
			one = b.LHS
		}
		r := one.PositionRange()
		text := expr[r.Start:r.End]
		sub, err := promParser.ParseExpr(text)
		if err != nil {
			return nil
		}
		can := false
		for _, src := range utils.LabelsSource(text, sub) {
			if src.CanHaveLabel(m[1]) {
				can = true
			}
		}
		if !can {
			found = true
		}
		return nil
	})
	return found
}

func class(reason, expr string) string {
	if groupLabelFromLackingSide(reason, expr) {
		return "group-modifier-label-assumed-present-although-the-one-side-lacks-it"
	}
	r := reNum.ReplaceAllString(reTick.ReplaceAllString(reason, "_"), "N")
	if len(r) > 80 {
		r = r[:80]
	}
	if strings.HasPrefix(reason, "the left hand side always retur") {
		return "or-rhs-declared-dead-after-always-returning-lhs"
	}
	if strings.Contains(reason, "always evaluates to") || reason == "" {
		if strings.Contains(expr, "bool") {
			return "static-comparison-with-bool-modifier-declared-dead"
		}
		if reMetric.MatchString(expr) || strings.Contains(expr, "on(") || strings.Contains(expr, "ignoring(") {
			return "static-value-assumed-through-vector-matching"
		}
		if strings.Contains(expr, "group(") || strings.Contains(expr, "group by") || strings.Contains(expr, "group without") {
			return "static-value-assumed-through-group-aggregation"
		}
	}
	return r
}

func body(c *explore.Chooser) *explore.Case {
	var e promqlgen.Expr
	var ok bool
	subs := []string{"ops1", "wrapped", "chain", "reinclude", "orjoin", "aggjoin", "matchers"}
	if tier == "thorough" {
		subs = append(subs, "ops2", "mini3")
	}
	if len(probe) > 0 { // VERIF_C12_PROBE=file: examine exactly the expressions listed there (debugging aid)
		subs = []string{"probe"}
	}
	switch subs[c.Free(len(subs), "subspace")] {
	case "probe":
		e = promqlgen.Expr{Text: probe[c.Free(len(probe), "probe")], Metrics: map[string]bool{"foo": true, "bar": true}}
		ok = true
	case "ops1":
		e, ok = promqlgen.Gen(c, &frag, 1, "e")
	case "wrapped":
		u := c.Free(len(frag.Unary), "outer")
		var in promqlgen.Expr
		in, ok = promqlgen.Gen(c, &frag, 1, "e")
		if ok && (in.Scalar || in.Ops == 0) {
			ok = false
		}
		if ok {
			e = promqlgen.Expr{Text: fmt.Sprintf(frag.Unary[u], in.Text), Metrics: in.Metrics, Ops: in.Ops + 1}
		}
	case "chain":
		// U2(U1(foo{..})) OP MOD R: what two stacked label transformations leave behind, seen by a join
		ul := chainUnary // quick: six wrappers; thorough: all of the fragment's
		if tier == "thorough" {
			ul = frag.Unary
		}
		u2 := ul[c.Free(len(ul), "u2")]
		u1 := ul[c.Free(len(ul), "u1")]
		sel := "foo"
		if m := frag.Matchers[c.Free(len(frag.Matchers), "m")]; m != "" {
			sel = "foo{" + m + "}"
		}
		op := chainOps[c.Free(len(chainOps), "op")]
		mod := frag.Modifiers[c.Free(len(frag.Modifiers), "mod")]
		r := chainRight[c.Free(len(chainRight), "r")]
		l := fmt.Sprintf(u2, fmt.Sprintf(u1, sel))
		if c.Free(2, "flip") == 1 {
			l, r = r, l
		}
		e = promqlgen.Expr{Text: "(" + l + ") " + op + " " + mod + " (" + r + ")", Metrics: map[string]bool{"foo": true, "bar": true}, Ops: 3}
		ok = true
	case "reinclude":
		// SEL OP MOD1 (AGG(bar) * MOD2 SEL3): a label removed by an aggregation (lists with repeated names too)
		// and brought back by group_left/right, then needed by an outer join
		sel := "foo"
		if m := frag.Matchers[c.Free(len(frag.Matchers), "m")]; m != "" {
			sel = "foo{" + m + "}"
		}
		op := reOps[c.Free(len(reOps), "op")]
		mod1 := reMod1[c.Free(len(reMod1), "mod1")]
		agg := reAgg[c.Free(len(reAgg), "agg")]
		mod2 := reMod2[c.Free(len(reMod2), "mod2")]
		sel3 := reSel3[c.Free(len(reSel3), "sel3")]
		inner := fmt.Sprintf(agg, "bar") + " * " + mod2 + " " + sel3
		if strings.Contains(mod2, "group_right") {
			inner = sel3 + " * " + mod2 + " " + fmt.Sprintf(agg, "bar")
		}
		e = promqlgen.Expr{Text: sel + " " + op + " " + mod1 + " (" + inner + ")", Metrics: map[string]bool{"foo": true, "bar": true}, Ops: 3}
		ok = true
	case "matchers":
		// W(foo{M1}) OP MOD bar{M2} over matchers that do and do not admit the empty value (added after seed C12_4:
		// `a=~".*"` admits "" but selects series that carry a)
		m1 := richMatchers[c.Free(len(richMatchers), "m1")]
		m2 := richMatchers[c.Free(len(richMatchers), "m2")]
		w := []string{"%s", "sum by(a) (%s)"}[c.Free(2, "w")]
		op := append([]string{"or"}, chainOps...)[c.Free(len(chainOps)+1, "op")]
		mod := frag.Modifiers[c.Free(len(frag.Modifiers), "mod")]
		sel := func(metric, m string) string {
			if m == "" {
				return metric
			}
			return metric + "{" + m + "}"
		}
		e = promqlgen.Expr{Text: fmt.Sprintf(w, sel("foo", m1)) + " " + op + " " + mod + " " + sel("bar", m2), Metrics: map[string]bool{"foo": true, "bar": true}, Ops: 2}
		ok = true
	case "orjoin":
		// (L1 or L2) OP MOD R, both orientations: one side has several sources, the other joins only some
		l1, l2 := orAlts[c.Free(len(orAlts), "l1")], orAlts[c.Free(len(orAlts), "l2")]
		op := chainOps[c.Free(len(chainOps), "op")]
		mod := frag.Modifiers[c.Free(len(frag.Modifiers), "mod")]
		r := orRight[c.Free(len(orRight), "r")]
		l := l1 + " or " + l2
		if c.Free(2, "flip") == 1 {
			l, r = r, l
		}
		e = promqlgen.Expr{Text: "(" + l + ") " + op + " " + mod + " (" + r + ")", Metrics: map[string]bool{"foo": true, "bar": true}, Ops: 3}
		ok = true
	case "aggjoin":
		// AGG(SEL op MOD R): an aggregation over a join removes or keeps labels the join brought in
		agg := aggOuter[c.Free(len(aggOuter), "agg")]
		sel := "foo"
		if m := frag.Matchers[c.Free(len(frag.Matchers), "m")]; m != "" {
			sel = "foo{" + m + "}"
		}
		op := chainOps[c.Free(len(chainOps), "op")]
		mod := frag.Modifiers[c.Free(len(frag.Modifiers), "mod")]
		r := chainRight[c.Free(len(chainRight), "r")]
		e = promqlgen.Expr{Text: fmt.Sprintf(agg, sel+" "+op+" "+mod+" ("+r+")"), Metrics: map[string]bool{"foo": true, "bar": true}, Ops: 3}
		ok = true
	case "ops2":
		e, ok = promqlgen.Gen(c, &frag2, 2, "e")
	case "mini3":
		e, ok = promqlgen.Gen(c, &mini, 3, "e")
	}
	if !ok || e.Scalar {
		return &explore.Case{Skip: true}
	}
	node, err := promParser.ParseExpr(e.Text)
	if err != nil || node.Type() != promParser.ValueTypeVector {
		return &explore.Case{Skip: true}
	}
	reports, herr := deadReports(e.Text)
	cs := &explore.Case{Input: map[string]any{"expr": e.Text}, Key: e.Text}
	if herr != "" {
		cs.Violate("harness:"+herr, herr, e.Text)
		return cs
	}
	if len(reports) == 0 {
		cs.Trivial = true
		cs.Outcome = "no-dead-code-report"
		return cs
	}
	cs.Outcome = fmt.Sprintf("dead-reports=%d", min(len(reports), 3))
	k := 2
	all := dbs(e.Metrics, k)
	for _, d := range reports {
		cands := candidates(e.Text, node, d)
		if len(cands) == 0 {
			cands = []candidate{{whole: e.Text, without: "zzz_none"}}
		}
		refutedAll := true
		var witness []string
		for _, cand := range cands {
			refuted := false
			for _, db := range all {
				cs.Count("engine_evaluations", 1)
				v, err := promqlsim.Instant(engine, db, cand.whole, evalAt)
				if err != nil || len(v) == 0 {
					continue // the operation returns nothing here: consistent with the report
				}
				// the flagged source contributed iff the result differs from what the operation returns without it
				o, err := promqlsim.Instant(engine, db, cand.without, evalAt)
				if err != nil {
					continue
				}
				ko, kv := keyOf(o), keyOf(v)
				for kk := range kv {
					if !ko[kk] {
						refuted = true
					}
				}
				for kk := range ko {
					if !kv[kk] {
						refuted = true
					}
				}
				if refuted {
					var dl []string
					for _, s := range db {
						dl = append(dl, fmt.Sprintf("%s=%v", s.Labels, s.Samples[0].V))
					}
					witness = append(witness, fmt.Sprintf("`%s` returns %s on %v", cand.whole, v, dl))
					break
				}
			}
			if !refuted {
				refutedAll = false
				break
			}
		}
		if refutedAll {
			cs.Violate("false-dead-code: "+class(d.reason, e.Text), fmt.Sprintf("pint reports dead code at `%s` in `%s` (%s) but every operation it can belong to returns series it contributes to: %v", e.Text[d.start:min(d.end, len(e.Text))], e.Text, d.reason, witness), map[string]any{"expr": e.Text, "reason": d.reason, "witness": witness})
			return cs
		}
		cs.Count("dead_reports_confirmed_unrefuted", 1)
	}
	return cs
}

func main() {
	explore.Main(&explore.Config{
		Property: "C12", Level: "exploration",
		Rule:        "expressions of the property's fragment (selectors x 4 matcher sets, label-preserving functions, aggregations by/without, arithmetic/comparison/set operators x 9 matching modifiers, numbers and vector(n) operands): all with <=1 operator node, every unary wrapper around every <=1-operator expression, and the 3-operator shapes chain (U2(U1(sel)) op mod R, both orientations) reinclude (sel op mod1 (agg(bar) * mod2 sel3), label lists with repeated names), orjoin ((L1 or L2) op mod R, both orientations), aggjoin (agg(sel op mod R)) and matchers (W(foo{M1}) op mod bar{M2} over 12 matcher sets that do / do not admit the empty value: =~\".*\", =~\"x|\", =~\"(x)?\", =~\".+\", =\"\", =~\"\", !=\"\", !~...), the verdict being taken on a rule that has been analysed once before as in the real pipeline (thorough: also all with <=2 operator nodes of a reduced fragment - 3 matcher sets, 6 wrappers, 6 operators, 6 modifiers - and all with <=3 operator nodes of a small alphabet; both complete, not time-capped); for every 'dead code in query' problem of the real promql/impossible check, every binary operation the flagged position can belong to is evaluated by the vendored engine on EVERY database of <=2 series in which each series carries all labels a,b,c (values x|y) with constant values 0|1|2; a candidate is an enclosing binary operation B plus the flagged source X (the operand holding the position, or an `or` alternative of it holding the position); (B,X) is refuted on a database where B returns something and differs (labels and values) from B with X replaced by a selector matching nothing; the report is a false positive iff every candidate is refuted on some database",
		Assumptions: []string{"a dead Source carries a position but not the operation that killed it, so all enclosing binary operations are candidates and a report only counts as false when all are refuted (never alarms on a correct report)", "engine over our in-memory storage is the truth"},
		Spaces:      []*explore.Space{{Name: "expressions", Body: body, Setup: setup, Bound: func(string) int { return -1 }}},
		BudgetS: func(t string) int {
			if t == "thorough" {
				return 3600
			}
			return 900
		},
		Finish: func(t string, agg *explore.Aggregate) ([]explore.Violation, string) {
			if agg.Stats["dead_reports_confirmed_unrefuted"] < 100 {
				return nil, fmt.Sprintf("vacuity guard: only %d dead-code reports examined", agg.Stats["dead_reports_confirmed_unrefuted"])
			}
			return nil, ""
		},
	})
}
