// c20: removing a rule that other rules depend on is reported, and only then. DESIGN.md §2 C20.
package main

import (
	"context"
	"fmt"
	"os"
	"regexp"
	"sort"
	"strings"

	"github.com/prometheus/common/model"

	"github.com/cloudflare/pint/internal/config"
	"github.com/cloudflare/pint/internal/discovery"
	"github.com/cloudflare/pint/internal/git"
	"github.com/cloudflare/pint/internal/parser"
	"github.com/cloudflare/pint/verifharness/explore"
	"github.com/cloudflare/pint/verifharness/lib/gitrepo"
	"github.com/cloudflare/pint/verifharness/lib/pintbin"
	"github.com/cloudflare/pint/verifharness/lib/pipeline"
)

type urule struct {
	id          string // stable identity in the universe
	file        string
	kind, name  string
	expr        string
	usesMetric  []string // metric names selected by a vector selector
	usesAlert   []string // alertnames selected with an equality matcher on ALERTS / ALERTS_FOR_STATE
	usesAlertRe []string // alertnames selected with a regexp matcher (permissive cell)
	top         bool     // written at the top of its file (same line numbers as the first rule of the other file)
}

type exprChoice struct {
	expr                         string
	metrics, alerts, alertsRegex []string
}

var exprChoices = []exprChoice{
	{expr: "up == 0"},
	{expr: "sum(A) by (x) > 0", metrics: []string{"A"}},
	{expr: `ALERTS{alertname="D"} == 1`, alerts: []string{"D"}},
	{expr: `count(ALERTS{alertname="Other"}) unless count(ALERTS{alertname="D"}) or other:metric + A`, metrics: []string{"A", "other:metric"}, alerts: []string{"Other", "D"}},
	{expr: "A > 0", metrics: []string{"A"}},
	{expr: `ALERTS_FOR_STATE{alertname="D"} > 0`, alerts: []string{"D"}},
	{expr: `A + on() ALERTS{alertname="D", alertstate="firing"} > 0`, metrics: []string{"A"}, alerts: []string{"D"}},
	{expr: `ALERTS{alertname=~"D"} == 1`, alertsRegex: []string{"D"}},
	{expr: `rate(A[5m]) > 0 or absent(A)`, metrics: []string{"A"}},
}

var nExprQuick = 4

func render(rules []urule) string {
	var sb strings.Builder
	sb.WriteString("groups:\n- name: g\n  rules:\n")
	for _, r := range rules {
		if r.kind == "recording" {
			fmt.Fprintf(&sb, "  - record: %s\n    expr: %s\n", r.name, r.expr)
		} else {
			fmt.Fprintf(&sb, "  - alert: %s\n    expr: %s\n    for: 5m\n", r.name, r.expr)
		}
	}
	return sb.String()
}

var (
	cfg config.Config
	gen *config.PrometheusGenerator
)

var reItem = regexp.MustCompile("- `([^`]+)` at `([^`]+)`")

func body(c *explore.Chooser) *explore.Case {
	nexpr := nExprQuick
	if tier == "thorough" {
		nexpr = len(exprChoices)
	}
	uni := []urule{
		{id: "A", file: "rules/one.yml", kind: "recording", name: "A", expr: "sum(up) by (x)"},
		{id: "D", file: "rules/one.yml", kind: "alerting", name: "D", expr: "up == 0"},
	}
	for i, f := range []string{"rules/one.yml", "rules/two.yml", "rules/two.yml"} {
		ne := nexpr
		if i > 0 && ne > nExprQuick {
			ne = nExprQuick // thorough: the first consumer ranges over all 9 expressions, the others over the quick 4
		}
		e := exprChoices[c.Free(ne, fmt.Sprintf("consumer%d.expr", i))]
		kind, name := "alerting", fmt.Sprintf("Consumer%d", i)
		if i == 2 {
			kind, name = "recording", "consumer:two"
		}
		uni = append(uni, urule{id: fmt.Sprintf("C%d", i), file: f, kind: kind, name: name, expr: e.expr, usesMetric: e.metrics, usesAlert: e.alerts, usesAlertRe: e.alertsRegex})
	}
	nextra := 4
	if tier != "thorough" {
		nextra = 3
	}
	extra := c.Free(nextra, "extra-providers")
	extraName := []string{"none", "second recording rule A in the other file", "alerting rule named A", "second alerting rule D in the other file"}[extra]
	// the extra provider sits at the end of its file or at its top, where it occupies the same line numbers as
	// the provider of the same kind in the other file
	extraTop := extra != 0 && c.Free(2, "extra-provider-on-top") == 1
	switch extra {
	case 1:
		uni = append(uni, urule{id: "A2", file: "rules/two.yml", kind: "recording", name: "A", expr: "sum(up) by (x, y)"})
	case 2:
		uni = append(uni, urule{id: "alertA", file: "rules/two.yml", kind: "alerting", name: "A", expr: "up == 1"})
	case 3:
		uni = append(uni, urule{id: "D2", file: "rules/two.yml", kind: "alerting", name: "D", expr: "up == 2"})
	}
	if extraTop {
		uni[len(uni)-1].top = true
		extraName += " (at the top of the file)"
	}
	// removal: subset mask, at least one rule removed; second-commit mask for a split removal
	mask := 1 + c.Free((1<<len(uni))-1, "removed-subset")
	split := 0
	if tier == "thorough" {
		split = c.Free(2, "two-commits")
	}
	removed := map[string]bool{}
	var removedIDs []string
	for i, r := range uni {
		if mask&(1<<i) != 0 {
			removed[r.id] = true
			removedIDs = append(removedIDs, r.id)
		}
	}
	if split == 1 && len(removedIDs) < 2 {
		return &explore.Case{Skip: true}
	}
	filesOf := func(skip map[string]bool) map[string][]urule {
		m := map[string][]urule{}
		for _, top := range []bool{true, false} {
			for _, r := range uni {
				if !skip[r.id] && r.top == top {
					m[r.file] = append(m[r.file], r)
				}
			}
		}
		return m
	}
	dir := pintbin.Scratch("c20")
	defer os.RemoveAll(dir)
	repo := gitrepo.Init(dir)
	repo.Write("rules/keep.yml", "groups:\n- name: k\n  rules:\n  - record: keep:me\n    expr: vector(1)\n")
	all := filesOf(nil)
	for f, rs := range all {
		repo.Write(f, render(rs))
	}
	repo.Commit("base")
	repo.Checkout("feature", true)
	writeState := func(skip map[string]bool) {
		cur := filesOf(skip)
		for f := range all {
			if rs, ok := cur[f]; ok {
				repo.Write(f, render(rs))
			} else {
				repo.Remove(f)
			}
		}
	}
	if split == 1 {
		first := map[string]bool{removedIDs[0]: true}
		writeState(first)
		repo.Commit("remove first")
	}
	writeState(removed)
	repo.Commit("remove rest")
	// the base branch may move on after the fork (the branch is not rebased): it removes the same rules itself, or
	// it adds a provider of its own to a file the branch touches. Removal is judged against the fork point, so
	// neither changes what the branch removed.
	mainMoves := 0
	if extra == 0 { // only without an extra provider (the product with the extras would be a time-capped sample)
		mainMoves = c.Free(3, "base-branch-after-fork")
	}
	mainName := []string{"unchanged", "removes the same rules", "adds a recording rule to the first file"}[mainMoves]
	if mainMoves > 0 {
		repo.Checkout("main", false)
		switch mainMoves {
		case 1:
			writeState(removed)
		case 2:
			repo.Write("rules/one.yml", render(append(append([]urule{}, all["rules/one.yml"]...), urule{kind: "recording", name: "main:only", expr: "vector(2)"})))
		}
		repo.Commit("main moves on")
		repo.Checkout("feature", false)
	}

	input := map[string]any{"rules": describe(uni), "removed": removedIDs, "two_commits": split == 1, "extra": extraName, "base_branch_after_fork": mainName}
	cs := &explore.Case{Input: input, Key: fmt.Sprint(describe(uni), removedIDs, split, extraTop, mainMoves)}
	if err := os.Chdir(dir); err != nil {
		panic(err)
	}
	filter := git.NewPathFilter(nil, nil, nil)
	entries, err := discovery.NewGlobFinder([]string{"*"}, filter, parser.PrometheusSchema, model.UTF8Validation, nil).Find()
	if err == nil {
		entries, err = discovery.NewGitBranchFinder(git.RunGit, filter, "main", 50, parser.PrometheusSchema, model.UTF8Validation, nil).Find(entries)
	}
	os.Chdir("/")
	if err != nil {
		cs.Violate("harness:finder", err.Error(), input)
		return cs
	}
	reports, crash := pipeline.Lint(context.Background(), config.CICommand, cfg, gen, entries)
	if crash != nil {
		cs.Violate("panic:"+crash.Site, crash.Value, input)
		return cs
	}
	// what pint reported: removed rule name+kind -> list of dependants "name at path"
	got := map[string][]string{}
	for _, r := range reports {
		if r.Problem.Reporter != "rule/dependency" {
			continue
		}
		k := string(r.Rule.Type()) + ":" + r.Rule.Name() + "@" + r.Path.Name
		var deps []string
		for _, m := range reItem.FindAllStringSubmatch(r.Problem.Details, -1) {
			p := m[2]
			if i := strings.LastIndexByte(p, ':'); i >= 0 {
				p = p[:i]
			}
			deps = append(deps, m[1]+" at "+p)
		}
		sort.Strings(deps)
		if _, dup := got[k]; dup {
			cs.Violate("duplicate-warning", "two rule/dependency warnings for "+k, input)
		}
		got[k] = deps
	}
	// reference graph
	var remaining []urule
	for _, r := range uni {
		if !removed[r.id] {
			remaining = append(remaining, r)
		}
	}
	nWarn := 0
	for _, r := range uni {
		if !removed[r.id] {
			continue
		}
		k := r.kind + ":" + r.name + "@" + r.file
		replaced := false
		for _, o := range remaining {
			if o.kind == r.kind && o.name == r.name {
				replaced = true
			}
		}
		var deps, depsRe []string
		for _, o := range remaining {
			uses, usesRe := false, false
			if r.kind == "recording" {
				for _, m := range o.usesMetric {
					if m == r.name {
						uses = true
					}
				}
			} else {
				for _, a := range o.usesAlert {
					if a == r.name {
						uses = true
					}
				}
				for _, a := range o.usesAlertRe {
					if a == r.name {
						usesRe = true
					}
				}
			}
			if uses {
				deps = append(deps, o.name+" at "+o.file)
			} else if usesRe {
				depsRe = append(depsRe, o.name+" at "+o.file)
			}
		}
		sort.Strings(deps)
		g, reported := got[k]
		delete(got, k)
		wantWarn := len(deps) > 0 && !replaced
		if wantWarn {
			nWarn++
		}
		class := fmt.Sprintf("kind=%s replaced=%v deps=%d regexdeps=%d extra=%d", r.kind, replaced, min(len(deps), 2), min(len(depsRe), 1), extra)
		switch {
		case wantWarn && !reported:
			cs.Violate("missing-warning "+class, fmt.Sprintf("removed %s rule %s is still used by %v and nothing replaces it, but no rule/dependency warning was reported", r.kind, r.name, deps), input)
		case !wantWarn && reported:
			if len(depsRe) > 0 && !replaced {
				cs.Count("permissive_regexp_matcher_cases", 1) // pint may or may not count alertname=~ selectors
				continue
			}
			cs.Violate("spurious-warning "+class, fmt.Sprintf("removed %s rule %s got a rule/dependency warning listing %v although the reference finds dependants=%v replaced=%v", r.kind, r.name, g, deps, replaced), input)
		case wantWarn && reported:
			// listed dependants: exactly the dependants (regexp ones may additionally appear)
			want := map[string]bool{}
			for _, d := range deps {
				want[d] = true
			}
			okExtra := map[string]bool{}
			for _, d := range depsRe {
				okExtra[d] = true
			}
			for _, d := range g {
				if !want[d] && !okExtra[d] {
					cs.Violate("wrong-dependant-listed "+class, fmt.Sprintf("warning for removed %s lists %q which does not depend on it (dependants: %v)", r.name, d, deps), input)
				}
				delete(want, d)
			}
			for d := range want {
				cs.Violate("dependant-not-listed "+class, fmt.Sprintf("warning for removed %s does not list dependant %q (listed: %v)", r.name, d, g), input)
			}
		}
	}
	for k, g := range got {
		cs.Violate("warning-on-unknown-rule", fmt.Sprintf("rule/dependency warning for %s (deps %v) which is not a removed rule of the model", k, g), input)
	}
	cs.Outcome = fmt.Sprintf("removed=%d warnings=%d", min(len(removedIDs), 3), min(nWarn, 2))
	return cs
}

func describe(u []urule) []string {
	var out []string
	for _, r := range u {
		out = append(out, fmt.Sprintf("%s=%s %s{%s} in %s", r.id, r.kind, r.name, r.expr, r.file))
	}
	return out
}

var tier string

func main() {
	explore.Main(&explore.Config{
		Property: "C20", Level: "exploration",
		Rule:        "rule universe: recording provider A and alert D in file one, three consumers (two alerts, one recording rule) in files one/two whose expressions range over {no reference, sum(A), ALERTS{alertname=\"D\"}, an expression with several ALERTS and metric selectors where the interesting one is not first} (thorough adds A, ALERTS_FOR_STATE, both, a regexp alertname matcher, rate+absent), optionally a second provider A or an alert named A (thorough: also a second alert D) in the other file; x every non-empty subset of rules removed on the branch (files vanish when emptied) (thorough: x removal in one or two commits); real git repository, real finders, real rule/dependency check under the ci command; compared with the generator's reference dependency graph: warning iff dependants remain and no same-kind same-name replacement remains, and the listed dependants are exactly the dependants; the base branch may move on after the fork (removing the same rules itself, or adding a rule to the first file; only without an extra provider); thorough: first consumer over all 9 expressions, a fourth extra-provider kind, removals split over two commits - sized to complete",
		Assumptions: []string{"alertname=~ selectors are a permissive cell: pint counts equality matchers only, the property speaks of selecting 'with its alertname'", "default configuration, offline"},
		Spaces: []*explore.Space{{Name: "removals", Body: body, Bound: func(string) int { return -1 }, Setup: func(t string) {
			tier = t
			cfg = pipeline.DefaultConfig()
			gen = pipeline.Generator(cfg)
		}}},
		BudgetS: func(t string) int {
			if t == "thorough" {
				return 2400
			}
			return 900
		},
	})
}
