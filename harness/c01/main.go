// c01: a file pint passes in strict mode (no Bug/Fatal from the default offline checks) is loadable by
// Prometheus (vendored rulefmt.Parse). See DESIGN.md §2 C01.
package main

import (
	"context"
	"fmt"
	"github.com/cloudflare/pint/internal/discovery"
	"github.com/cloudflare/pint/internal/git"
	"github.com/cloudflare/pint/verifharness/lib/pintbin"
	"os"
	"path/filepath"
	"regexp"
	"strings"
	"time"

	"github.com/prometheus/common/model"
	"github.com/prometheus/prometheus/model/rulefmt"

	"github.com/cloudflare/pint/internal/checks"
	"github.com/cloudflare/pint/internal/config"
	"github.com/cloudflare/pint/internal/parser"
	"github.com/cloudflare/pint/verifharness/explore"
	"github.com/cloudflare/pint/verifharness/lib/pipeline"
	"github.com/cloudflare/pint/verifharness/lib/rulegen"
)

var (
	cfg config.Config
	gen *config.PrometheusGenerator
)

var tier string

func setup(t string) {
	tier = t
	cfg = pipeline.DefaultConfig()
	gen = pipeline.Generator(cfg)
}

var (
	reNum   = regexp.MustCompile(`\d+`)
	reQuote = regexp.MustCompile(`"[^"]*"|'[^']*'|` + "`[^`]*`")
)

var reTail = regexp.MustCompile(`(invalid label name|invalid label value|invalid annotation name|invalid recording rule name|should it be in expr\?): .*`)

func sigOf(msg string) string {
	msg = reTail.ReplaceAllString(msg, "$1")
	msg = reQuote.ReplaceAllString(msg, "Q")
	msg = reNum.ReplaceAllString(msg, "N")
	if len(msg) > 90 {
		msg = msg[:90]
	}
	return strings.TrimSpace(msg)
}

// decide runs both acceptors on the same bytes under the same name-validation scheme.
func decide(content []byte, names model.ValidationScheme, cs *explore.Case) {
	entries, crash := pipeline.Parse("rules.yml", content, true, parser.PrometheusSchema, names)
	decideEntries(entries, crash, content, names, cs)
}

func decideEntries(entries []discovery.Entry, crash *pipeline.Crash, content []byte, names model.ValidationScheme, cs *explore.Case) {
	pintOK := true
	worst := ""
	if crash != nil {
		pintOK = false // a crash is not a pass (crashes are C02's business)
		cs.Count("pint_crashed", 1)
		worst = "crash"
	} else {
		reports, crash := pipeline.Lint(context.Background(), config.LintCommand, cfg, gen, entries)
		if crash != nil {
			pintOK = false
			cs.Count("pint_crashed", 1)
			worst = "crash"
		}
		for _, r := range reports {
			if r.Problem.Severity >= checks.Bug {
				pintOK = false
				if worst == "" {
					worst = r.Problem.Reporter + ": " + r.Problem.Summary
				}
			}
		}
	}
	// parser.NewParser set model.NameValidationScheme = names; rulefmt reads the same global
	_, errs := rulefmt.Parse(content, false)
	promOK := len(errs) == 0
	switch {
	case pintOK && promOK:
		cs.Outcome = "accept/accept"
	case !pintOK && !promOK:
		cs.Outcome = "reject/reject"
	case !pintOK && promOK:
		cs.Outcome = "pint-rejects/prom-accepts"
	default:
		cs.Outcome = "pint-accepts/prom-rejects"
		msg := errs[0].Error()
		ctx := ""
		if strings.Contains(string(content), "<<:") {
			ctx = " [merge-key]"
		}
		cs.Violate("prom-rejects: "+sigOf(msg)+ctx, "pint reports no Bug/Fatal problem but Prometheus refuses the file: "+msg,
			map[string]any{"file": string(content), "prometheus_errors": errStrings(errs), "names": nameOf(names)})
	}
}

func nameOf(n model.ValidationScheme) string {
	if n == model.LegacyValidation {
		return "legacy"
	}
	return "utf8"
}

func errStrings(errs []error) (out []string) {
	for _, e := range errs {
		out = append(out, e.Error())
	}
	return out
}

func semantic(names model.ValidationScheme) explore.Body {
	return func(c *explore.Chooser) *explore.Case {
		d := rulegen.Semantic(c)
		cs := &explore.Case{Input: map[string]any{"deviations": d.Deviations, "file": d.Text, "names": nameOf(names)}, Key: nameOf(names) + d.Text}
		cs.Trivial = len(d.Deviations) == 0
		decide([]byte(d.Text), names, cs)
		return cs
	}
}

// relint: the same path is linted twice in one process through the real GlobFinder (what `pint watch` does): first
// with a valid document, then with a generated one of exactly the same size written with the same modification
// time (rsync -t, cp -p, an edit within one timestamp tick). The verdict on the second content must be about the
// second content.
var relintDir string

func relint(c *explore.Chooser) *explore.Case {
	if relintDir == "" {
		relintDir = pintbin.Scratch("c01-relint")
	}
	valid := rulegen.Semantic(explore.NewReplay(nil, false))
	d := rulegen.Semantic(c)
	if len(d.Deviations) == 0 {
		return &explore.Case{Skip: true}
	}
	pad := func(s string, n int) string {
		if !strings.HasSuffix(s, "\n") {
			s += "\n"
		}
		return s + "#" + strings.Repeat("p", n-len(s)-2) + "\n"
	}
	n := max(len(valid.Text), len(d.Text)) + 4
	a, b := pad(valid.Text, n), pad(d.Text, n)
	cs := &explore.Case{Input: map[string]any{"deviations": d.Deviations, "first_content": a, "file": b, "names": "utf8"}, Key: b}
	if len(a) != len(b) {
		panic("padding failed")
	}
	path := filepath.Join(relintDir, "rules.yml")
	stamp := time.Unix(1700000000, 0)
	find := func(content string) ([]discovery.Entry, *pipeline.Crash) {
		if err := os.WriteFile(path, []byte(content), 0o644); err != nil {
			panic(err)
		}
		os.Chtimes(path, stamp, stamp)
		var entries []discovery.Entry
		var crash *pipeline.Crash
		func() {
			defer func() {
				if p := recover(); p != nil {
					crash = &pipeline.Crash{Site: "find", Value: fmt.Sprint(p)}
				}
			}()
			var err error
			entries, err = discovery.NewGlobFinder([]string{path}, git.NewPathFilter(nil, nil, nil), parser.PrometheusSchema, model.UTF8Validation, nil).Find()
			if err != nil {
				panic(err)
			}
		}()
		return entries, crash
	}
	find(a)
	entries, crash := find(b)
	decideEntries(entries, crash, []byte(b), model.UTF8Validation, cs)
	return cs
}

// bases for the mutation space: valid documents covering every field
var bases = []string{
	"groups:\n- name: g\n  rules:\n  - alert: A\n    expr: up == 0\n    for: 5m\n    labels:\n      severity: page\n    annotations:\n      summary: \"{{ $labels.job }} down\"\n  - record: job:up:sum\n    expr: sum(up) by (job)\n    labels:\n      team: a\n",
	"groups:\n- name: g1\n  interval: 1m\n  rules:\n  - record: a:b\n    expr: up\n- name: g2\n  limit: 2\n  labels:\n    x: y\n  rules:\n  - alert: B\n    expr: up == 0\n    keep_firing_for: 1m\n",
	"groups:\n  - name: \"g\"\n    rules:\n      - alert: 'A'\n        expr: |\n          up == 0\n        annotations: {summary: x}\n",
}

var insertAlphabet = []string{":", "-", "#", "'", "\"", "{", "[", "&", "*", "|", ">", "!", "%", "\t", "\r", " ", "}", "]", ",", "?", "@", "`", "~", "\n", "\xff", "<"}

func lineMutate(c *explore.Chooser, lines []string, tag string) ([]string, string) {
	kind := c.Free(7, tag+"kind")
	i := c.Free(len(lines), tag+"line")
	out := append([]string(nil), lines...)
	name := []string{"delete", "duplicate", "swap", "indent+1", "indent+2", "indent-1", "indent-2"}[kind]
	switch kind {
	case 0:
		out = append(out[:i], out[i+1:]...)
	case 1:
		out = append(out[:i+1], append([]string{lines[i]}, out[i+1:]...)...)
	case 2:
		if i+1 >= len(lines) {
			return nil, ""
		}
		out[i], out[i+1] = out[i+1], out[i]
	case 3:
		out[i] = " " + out[i]
	case 4:
		out[i] = "  " + out[i]
	case 5:
		if !strings.HasPrefix(out[i], " ") {
			return nil, ""
		}
		out[i] = out[i][1:]
	case 6:
		if !strings.HasPrefix(out[i], "  ") {
			return nil, ""
		}
		out[i] = out[i][2:]
	}
	return out, fmt.Sprintf("%s@%d", name, i+1)
}

func mutateBody(names model.ValidationScheme, pairs bool) explore.Body {
	return func(c *explore.Chooser) *explore.Case {
		if pairs && tier != "thorough" {
			return &explore.Case{Skip: true}
		}
		bi := c.Free(len(bases), "base")
		base := bases[bi]
		class := c.Free(3, "class") // 0 line, 1 byte insert, 2 byte delete
		var text, what string
		switch class {
		case 0:
			lines := strings.Split(strings.TrimSuffix(base, "\n"), "\n")
			m, w := lineMutate(c, lines, "m1.")
			if m == nil {
				return &explore.Case{Skip: true}
			}
			what = w
			if pairs {
				if len(m) == 0 {
					return &explore.Case{Skip: true}
				}
				m2, w2 := lineMutate(c, m, "m2.")
				if m2 == nil {
					return &explore.Case{Skip: true}
				}
				m, what = m2, w+"+"+w2
			}
			text = strings.Join(m, "\n") + "\n"
		case 1:
			if pairs {
				return &explore.Case{Skip: true}
			}
			off := c.Free(len(base)+1, "offset")
			ch := c.Free(len(insertAlphabet), "char")
			text = base[:off] + insertAlphabet[ch] + base[off:]
			what = fmt.Sprintf("insert %q@%d", insertAlphabet[ch], off)
		case 2:
			if pairs {
				return &explore.Case{Skip: true}
			}
			off := c.Free(len(base), "offset")
			text = base[:off] + base[off+1:]
			what = fmt.Sprintf("delete@%d", off)
		}
		if strings.Contains(text, "# pint") {
			return &explore.Case{Skip: true}
		}
		cs := &explore.Case{Input: map[string]any{"base": bi, "mutation": what, "file": text, "names": nameOf(names)}, Key: nameOf(names) + text}
		decide([]byte(text), names, cs)
		return cs
	}
}

func main() {
	semBound := func(t string) int {
		if t == "thorough" {
			return 3
		}
		return 2
	}
	unb := func(string) int { return -1 }
	spaces := []*explore.Space{
		{Name: "semantic-utf8", Body: semantic(model.UTF8Validation), Bound: semBound, Setup: setup},
		{Name: "semantic-legacy", Body: semantic(model.LegacyValidation), Bound: semBound, Setup: setup},
		{Name: "relint-same-size-same-mtime", Body: relint, Bound: func(string) int { return 1 }, Setup: setup},
		{Name: "mutate-utf8", Body: mutateBody(model.UTF8Validation, false), Bound: unb, Setup: setup},
		{Name: "mutate-legacy", Body: mutateBody(model.LegacyValidation, false), Bound: unb, Setup: setup},
		{Name: "mutate-line-pairs-utf8", Body: mutateBody(model.UTF8Validation, true), Bound: unb, Setup: setup},
	}
	explore.Main(&explore.Config{
		Property: "C01", Level: "exploration",
		Rule: "structurally generated strict-layout rule documents: every site (top level, group, rule fields, scalar style) carries an ordered catalogue of deviations; all documents with <=k deviations (k=2 quick, 3 thorough for utf-8 names, 2 for legacy names) + every single line-level mutation (delete/duplicate/swap/indent) and every single byte insertion (26-char alphabet) / deletion at every offset of 3 valid base documents (thorough: all pairs of line mutations); distinct = distinct file bytes per name scheme; non-trivial = at least one deviation/mutation",
		Assumptions: []string{
			"Prometheus' loader = vendored rulefmt.Parse(content, false) (v0.303.0), evaluated in-process under the same global name-validation scheme pint's parser was configured with",
			"pint passes = strict parse + default config offline checks yield no report of severity Bug or Fatal (a crash counts as not passing)",
			"documents further than k deviations from the skeleton and byte strings far from the three bases are not covered",
		},
		Spaces: spaces,
		BudgetS: func(t string) int {
			if t == "thorough" {
				return 1500
			}
			return 240
		},
		Finish: func(tier string, agg *explore.Aggregate) ([]explore.Violation, string) {
			if agg.Outcomes["accept/accept"] < 50 || agg.Outcomes["reject/reject"] < 1000 {
				return nil, fmt.Sprintf("vacuity guard: contingency table too thin %v", agg.Outcomes)
			}
			return nil, ""
		},
	})
}
