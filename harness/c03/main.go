// c03: pint ci classifies every rule's change state correctly for any branch history. DESIGN.md §2 C03.
// Real git repository per history; the real GlobFinder + GitBranchFinder run in-process with cwd = repository.
package main

import (
	"fmt"
	"os"
	"sort"
	"strings"

	"github.com/prometheus/common/model"

	"github.com/cloudflare/pint/internal/discovery"
	"github.com/cloudflare/pint/internal/git"
	"github.com/cloudflare/pint/internal/parser"
	"github.com/cloudflare/pint/verifharness/explore"
	"github.com/cloudflare/pint/verifharness/lib/gitrepo"
	"github.com/cloudflare/pint/verifharness/lib/pintbin"
)

// ---- model of a rules directory ----

type rule struct {
	kind, name, expr, forv string
	labels, anns           [][2]string
	comments               []string // rule-level pint comments (own lines above the rule)
	trailing               []string // rule-level pint comments trailing on the rule's first line
	flow                   bool     // written as one flow mapping `- {record: ..., expr: ...}` (base variant 2, seed C03_4)
	plainAbove, blankAbove int
}

func sq(s string) string { return "'" + strings.ReplaceAll(s, "'", "''") + "'" }

func (r rule) trail() string {
	if len(r.trailing) == 0 {
		return ""
	}
	return " # pint " + strings.Join(r.trailing, " # pint ")
}

func (r rule) renderFlow(key string) string {
	parts := []string{key + ": " + sq(r.name), "expr: " + sq(r.expr)}
	if r.forv != "" {
		parts = append(parts, "for: "+r.forv)
	}
	for _, m := range []struct {
		k   string
		kvs [][2]string
	}{{"labels", r.labels}, {"annotations", r.anns}} {
		if len(m.kvs) > 0 {
			var kv []string
			for _, x := range m.kvs {
				kv = append(kv, x[0]+": "+sq(x[1]))
			}
			parts = append(parts, m.k+": {"+strings.Join(kv, ", ")+"}")
		}
	}
	return "  - {" + strings.Join(parts, ", ") + "}" + r.trail() + "\n"
}

func (r rule) record(fileDisables []string) string {
	fd := append([]string(nil), fileDisables...)
	sort.Strings(fd)
	cm := append(append([]string(nil), r.comments...), r.trailing...)
	sort.Strings(cm)
	return fmt.Sprintf("%s|%s|%s|%s|%v|%v|%v|%v", r.kind, r.name, r.expr, r.forv, r.labels, r.anns, cm, fd)
}

type file struct {
	id           int
	path         string
	interval     string
	fileDisables []string
	rules        []rule
}

func (f file) render() string {
	var sb strings.Builder
	for _, d := range f.fileDisables {
		fmt.Fprintf(&sb, "# pint file/disable %s\n", d)
	}
	sb.WriteString("groups:\n- name: g\n")
	if f.interval != "" {
		fmt.Fprintf(&sb, "  interval: %s\n", f.interval)
	}
	sb.WriteString("  rules:\n")
	for _, r := range f.rules {
		for i := 0; i < r.blankAbove; i++ {
			sb.WriteString("\n")
		}
		for i := 0; i < r.plainAbove; i++ {
			sb.WriteString("  # just a comment\n")
		}
		for _, c := range r.comments {
			fmt.Fprintf(&sb, "  # pint %s\n", c)
		}
		key := "record"
		if r.kind == "alerting" {
			key = "alert"
		}
		if r.flow {
			sb.WriteString(r.renderFlow(key))
			continue
		}
		fmt.Fprintf(&sb, "  - %s: %s%s\n    expr: %s\n", key, r.name, r.trail(), r.expr)
		if r.forv != "" {
			fmt.Fprintf(&sb, "    for: %s\n", r.forv)
		}
		if len(r.labels) > 0 {
			sb.WriteString("    labels:\n")
			for _, kv := range r.labels {
				fmt.Fprintf(&sb, "      %s: %s\n", kv[0], kv[1])
			}
		}
		if len(r.anns) > 0 {
			sb.WriteString("    annotations:\n")
			for _, kv := range r.anns {
				fmt.Fprintf(&sb, "      %s: %s\n", kv[0], kv[1])
			}
		}
	}
	return sb.String()
}

type tree struct {
	files  []file
	nextID int
}

func (t tree) clone() tree {
	n := tree{nextID: t.nextID}
	for _, f := range t.files {
		nf := f
		nf.fileDisables = append([]string(nil), f.fileDisables...)
		nf.rules = nil
		for _, r := range f.rules {
			nr := r
			nr.labels = append([][2]string(nil), r.labels...)
			nr.anns = append([][2]string(nil), r.anns...)
			nr.comments = append([]string(nil), r.comments...)
			nr.trailing = append([]string(nil), r.trailing...)
			nf.rules = append(nf.rules, nr)
		}
		n.files = append(n.files, nf)
	}
	return n
}

// baseTree: variant 1 has a byte-identical duplicate of b.yml's first rule at the end of that file (rule identity
// is then a multiset question: each HEAD copy pairs with one base copy).
func baseTree(variant int) tree {
	t := baseTree0()
	if variant == 1 {
		t.files[1].rules = append(t.files[1].rules, t.clone().files[1].rules[0])
	}
	if variant == 2 { // first rule of a.yml in flow style below a plain comment (b.yml stays in block style: a short
		// file whose only rule is one flow line falls below git's rename similarity when that line is edited)
		t.files[0].rules[0].flow, t.files[0].rules[0].plainAbove = true, 1
	}
	return t
}

func baseTree0() tree {
	mk := func(kind, name, expr string) rule {
		r := rule{kind: kind, name: name, expr: expr}
		if kind == "alerting" {
			r.forv = "5m"
			r.labels = [][2]string{{"severity", "page"}, {"team", "sre"}}
			r.anns = [][2]string{{"summary", "something is down"}, {"runbook", "https://example.com/r"}}
		} else {
			r.labels = [][2]string{{"team", "sre"}}
		}
		return r
	}
	return tree{nextID: 2, files: []file{
		{id: 0, path: "rules/a.yml", rules: []rule{mk("alerting", "AlertOne", "up{job=\"one\"} == 0"), mk("recording", "job:one:sum", "sum(one) by (job)"), mk("alerting", "AlertTwo", "rate(errors_total[5m]) > 0.5")}},
		{id: 1, path: "rules/b.yml", rules: []rule{mk("recording", "job:two:sum", "sum(two) by (job)"), mk("alerting", "AlertThree", "absent(up{job=\"three\"})")}},
	}}
}

// ---- operations: one per branch commit ----

type op struct {
	name  string
	apply func(t *tree) bool // false = not applicable
}

func fileAt(t *tree, i int) *file {
	if i < len(t.files) {
		return &t.files[i]
	}
	return nil
}

func ruleOp(fi, ri int, name string, f func(r *rule)) op {
	return op{fmt.Sprintf("%s f%d r%d", name, fi, ri), func(t *tree) bool {
		fl := fileAt(t, fi)
		if fl == nil || ri >= len(fl.rules) {
			return false
		}
		f(&fl.rules[ri])
		return true
	}}
}

func ops() []op {
	var out []op
	out = append(out, op{"add file", func(t *tree) bool {
		for _, f := range t.files {
			if f.path == "rules/new.yml" {
				return false
			}
		}
		t.files = append(t.files, file{id: t.nextID, path: "rules/new.yml", rules: []rule{{kind: "recording", name: "job:new:sum", expr: "sum(new) by (job)"}}})
		t.nextID++
		return true
	}})
	for fi := 0; fi < 2; fi++ {
		fi := fi
		out = append(out, op{fmt.Sprintf("delete file f%d", fi), func(t *tree) bool {
			if fi >= len(t.files) {
				return false
			}
			t.files = append(t.files[:fi], t.files[fi+1:]...)
			return true
		}})
		out = append(out, op{fmt.Sprintf("rename file f%d", fi), func(t *tree) bool {
			fl := fileAt(t, fi)
			if fl == nil || strings.Contains(fl.path, "moved") {
				return false
			}
			fl.path = strings.Replace(fl.path, "rules/", "rules/moved_", 1)
			return true
		}})
		out = append(out, op{fmt.Sprintf("rename file f%d and edit r0 expr", fi), func(t *tree) bool {
			fl := fileAt(t, fi)
			if fl == nil || strings.Contains(fl.path, "moved") || len(fl.rules) == 0 {
				return false
			}
			fl.path = strings.Replace(fl.path, "rules/", "rules/moved_", 1)
			fl.rules[0].expr += " + 0"
			return true
		}})
		out = append(out, op{fmt.Sprintf("add rule on top of f%d", fi), func(t *tree) bool {
			fl := fileAt(t, fi)
			if fl == nil {
				return false
			}
			name := fmt.Sprintf("added:top:%d", len(fl.rules))
			fl.rules = append([]rule{{kind: "recording", name: name, expr: "sum(added) by (job)"}}, fl.rules...)
			return true
		}})
		out = append(out, op{fmt.Sprintf("add rule at end of f%d", fi), func(t *tree) bool {
			fl := fileAt(t, fi)
			if fl == nil {
				return false
			}
			name := fmt.Sprintf("AddedEnd%d", len(fl.rules))
			fl.rules = append(fl.rules, rule{kind: "alerting", name: name, expr: "added_end > 0", forv: "1m"})
			return true
		}})
		out = append(out, op{fmt.Sprintf("add file/disable to f%d", fi), func(t *tree) bool {
			fl := fileAt(t, fi)
			if fl == nil || len(fl.fileDisables) > 0 {
				return false
			}
			fl.fileDisables = []string{"promql/rate"}
			return true
		}})
		out = append(out, op{fmt.Sprintf("change group interval of f%d", fi), func(t *tree) bool {
			fl := fileAt(t, fi)
			if fl == nil || fl.interval != "" {
				return false
			}
			fl.interval = "2m"
			return true
		}})
		for ri := 0; ri < 2; ri++ {
			ri := ri
			out = append(out, op{fmt.Sprintf("delete rule f%d r%d", fi, ri), func(t *tree) bool {
				fl := fileAt(t, fi)
				if fl == nil || ri >= len(fl.rules) || len(fl.rules) < 2 {
					return false
				}
				fl.rules = append(fl.rules[:ri], fl.rules[ri+1:]...)
				return true
			}})
			out = append(out, ruleOp(fi, ri, "change expr", func(r *rule) { r.expr += " or vector(0)" }))
			out = append(out, ruleOp(fi, ri, "change label value", func(r *rule) {
				if len(r.labels) > 0 {
					r.labels[0][1] += "x"
				} else {
					r.labels = [][2]string{{"added", "label"}}
				}
			}))
			out = append(out, ruleOp(fi, ri, "add pint disable comment", func(r *rule) { r.comments = append(r.comments, "disable promql/series") }))
			out = append(out, ruleOp(fi, ri, "plain comment above", func(r *rule) { r.plainAbove++ }))
			out = append(out, ruleOp(fi, ri, "blank line above", func(r *rule) { r.blankAbove++ }))
		}
		out = append(out, ruleOp(fi, 0, "add trailing pint disable comment", func(r *rule) { r.trailing = append(r.trailing, "disable promql/rate") }))
		out = append(out, ruleOp(fi, 0, "change annotation", func(r *rule) {
			if len(r.anns) > 0 {
				r.anns[0][1] += " now"
			} else {
				r.anns = nil
				r.labels = append(r.labels, [2]string{fmt.Sprintf("extra%d", len(r.labels)), "one"})
			}
		}))
		out = append(out, ruleOp(fi, 0, "drop one label of several", func(r *rule) {
			if len(r.labels) > 1 {
				r.labels = r.labels[:len(r.labels)-1]
			} else {
				r.labels = append(r.labels, [2]string{fmt.Sprintf("second%d", len(r.labels)), "label"})
			}
		}))
		out = append(out, ruleOp(fi, 0, "drop one annotation of several", func(r *rule) {
			switch {
			case len(r.anns) > 1:
				r.anns = r.anns[:len(r.anns)-1]
			case r.kind == "alerting":
				r.anns = append(r.anns, [2]string{fmt.Sprintf("second%d", len(r.anns)), "annotation"})
			default:
				r.labels = append(r.labels, [2]string{fmt.Sprintf("another%d", len(r.labels)), "label"})
			}
		}))
		out = append(out, ruleOp(fi, 0, "change for", func(r *rule) {
			if r.kind == "alerting" {
				r.forv = "10m"
			} else {
				r.expr = "(" + r.expr + ")"
			}
		}))
		out = append(out, ruleOp(fi, 0, "remove pint disable comment", func(r *rule) {
			if len(r.comments) > 0 {
				r.comments = r.comments[:len(r.comments)-1]
			} else {
				r.comments = append(r.comments, "snooze 2099-01-01 promql/series")
			}
		}))
	}
	return out
}

var allOps = ops()

// the operations used in depth-3 histories: everything on file 0 that is not tied to its second rule
var depth3Ops = func() (out []int) {
	for i, o := range allOps {
		if strings.Contains(o.name, "f1") || strings.HasSuffix(o.name, " r1") || strings.Contains(o.name, "trailing") {
			continue // trailing comments (seed C03_4) stay in the depth<=2 histories
		}
		out = append(out, i)
	}
	return out
}()

// special operations that are not tree edits
const (
	opRevert    = -1 // restore the tree of the previous commit
	opMainSame  = -2 // commit on main after the fork touching rules/a.yml (the branch is NOT rebased)
	opMainOther = -3
)

func writeTree(r *gitrepo.Repo, prev, cur tree) {
	have := map[string]bool{}
	for _, f := range cur.files {
		have[f.path] = true
		r.Write(f.path, f.render())
	}
	for _, f := range prev.files {
		if !have[f.path] {
			r.Remove(f.path)
		}
	}
}

func body(c *explore.Chooser) *explore.Case {
	depth := 1 + c.Free(maxDepth, "depth")
	variant := c.Free(3, "base")
	if variant == 2 && depth == 3 {
		return &explore.Case{Skip: true} // the flow-style tree (seed C03_4) is explored to depth 2
	}
	base := baseTree(variant)
	cur := base.clone()
	history := []tree{cur.clone()}
	var names []string
	type step struct {
		kind int
		t    tree
	}
	var steps []step
	nspecial := 3
	// depth-3 histories (thorough) are drawn from the operations on the first file and its first rule plus the
	// specials: complete over that alphabet instead of a time-capped sample of 62^3
	opIndex := func(k int) int { return k }
	nops := len(allOps)
	if depth == 3 {
		nops = len(depth3Ops)
		opIndex = func(k int) int { return depth3Ops[k] }
	}
	for d := 0; d < depth; d++ {
		k := c.Free(nops+nspecial, fmt.Sprintf("op%d", d))
		if k < nops {
			k = opIndex(k)
		} else {
			k = len(allOps) + (k - nops)
		}
		switch {
		case k < len(allOps):
			nt := cur.clone()
			if !allOps[k].apply(&nt) {
				return &explore.Case{Skip: true}
			}
			cur = nt
			names = append(names, allOps[k].name)
			steps = append(steps, step{0, cur.clone()})
		case k == len(allOps): // revert previous commit
			if d == 0 {
				return &explore.Case{Skip: true}
			}
			cur = history[len(history)-2].clone()
			names = append(names, "revert previous commit")
			steps = append(steps, step{0, cur.clone()})
		case k == len(allOps)+1:
			if d != 0 {
				return &explore.Case{Skip: true} // main advances once, right after the fork
			}
			names = append(names, "main advances (same file)")
			steps = append(steps, step{opMainSame, tree{}})
		default:
			if d != 0 {
				return &explore.Case{Skip: true}
			}
			names = append(names, "main advances (other file)")
			steps = append(steps, step{opMainOther, tree{}})
		}
		history = append(history, cur.clone())
	}
	// build the repository
	dir := pintbin.Scratch("c03")
	defer os.RemoveAll(dir)
	r := gitrepo.Init(dir)
	writeTree(r, tree{}, base)
	r.Commit("base")
	r.Checkout("feature", true)
	prev := base
	ncommits := 0
	for i, st := range steps {
		switch st.kind {
		case opMainSame, opMainOther:
			r.Checkout("main", false)
			if st.kind == opMainSame {
				f := base.clone().files[0]
				f.rules = append(f.rules, rule{kind: "recording", name: "main:only", expr: "sum(main) by (job)"})
				// main also edits existing rules of that file: the branch must still be compared with the fork point
				f.rules[1].expr += " * 2"
				f.rules[2].labels[0][1] = "changed-on-main"
				r.Write(f.path, f.render())
			} else {
				r.Write("rules/main_only.yml", "groups:\n- name: m\n  rules:\n  - record: main:other\n    expr: up\n")
			}
			r.Commit("main moves on")
			r.Checkout("feature", false)
		default:
			writeTree(r, prev, st.t)
			r.Commit(fmt.Sprintf("commit %d: %s", i, names[i]))
			prev = st.t
			ncommits++
		}
	}
	input := map[string]any{"history": names, "base_variant": variant}
	cs := &explore.Case{Input: input, Key: fmt.Sprint(variant, " ", strings.Join(names, " ; "))}
	if ncommits == 0 || len(cur.files) == 0 {
		return &explore.Case{Skip: true} // nothing on the branch / no rule file left at HEAD (pint ci stops with "no matching files")
	}
	// run the real finders with cwd = repository
	if err := os.Chdir(dir); err != nil {
		panic(err)
	}
	filter := git.NewPathFilter(nil, nil, nil)
	entries, err := discovery.NewGlobFinder([]string{"*"}, filter, parser.PrometheusSchema, model.UTF8Validation, nil).Find()
	if err != nil {
		cs.Violate("harness:glob", err.Error(), input)
		return cs
	}
	entries, err = discovery.NewGitBranchFinder(git.RunGit, filter, "main", 50, parser.PrometheusSchema, model.UTF8Validation, nil).Find(entries)
	os.Chdir("/")
	if err != nil {
		cs.Violate("harness:gitfinder", err.Error(), input)
		return cs
	}
	// reference classification from the generator's own records
	forkByID := map[int]file{}
	for _, f := range base.files {
		forkByID[f.id] = f
	}
	type key struct{ path, kind, name string }
	want := map[key][]string{}
	for _, f := range cur.files {
		ff, existed := forkByID[f.id]
		used := make([]bool, len(ff.rules))
		state := make([]string, len(f.rules))
		// first pass: every HEAD rule pairs with one unused base rule of identical content
		for hi, ru := range f.rules {
			if !existed {
				state[hi] = "added"
				continue
			}
			for bi := range ff.rules {
				if !used[bi] && ff.rules[bi].kind == ru.kind && ff.rules[bi].name == ru.name && ff.rules[bi].record(ff.fileDisables) == ru.record(f.fileDisables) {
					used[bi] = true
					state[hi] = "noop"
					if ff.path != f.path {
						state[hi] = "moved"
					}
					break
				}
			}
		}
		// second pass: the rest pairs by (kind, name) with what is left of the base file
		for hi, ru := range f.rules {
			if state[hi] != "" {
				continue
			}
			left, total := 0, 0
			for bi := range ff.rules {
				if ff.rules[bi].kind == ru.kind && ff.rules[bi].name == ru.name {
					total++
					if !used[bi] {
						left++
					}
				}
			}
			switch {
			case left == 0:
				state[hi] = "added"
			case total > 1:
				// several base rules carry this name: which of them a changed HEAD copy continues is not defined
				// by a content comparison, so any "changed" state is in agreement with it
				state[hi] = "changed"
			case ff.path != f.path:
				state[hi] = "moved-or-modified"
			default:
				state[hi] = "modified"
			}
		}
		for hi, ru := range f.rules {
			k := key{f.path, ru.kind, ru.name}
			want[k] = append(want[k], state[hi])
		}
	}
	got := map[key][]string{}
	for _, e := range entries {
		if e.State == discovery.Removed {
			continue
		}
		if e.PathError != nil || e.Rule.Error.Err != nil {
			cs.Violate("harness:parse-error", fmt.Sprintf("generated file does not parse: %v %v", e.PathError, e.Rule.Error.Err), input)
			return cs
		}
		k := key{e.Path.Name, string(e.Rule.Type()), e.Rule.Name()}
		if strings.HasPrefix(k.path, "rules/main_only") {
			continue
		}
		got[k] = append(got[k], e.State.String())
	}
	accepts := func(w, g string) bool {
		switch w {
		case "moved-or-modified":
			return g == "moved" || g == "modified"
		case "changed":
			return g == "added" || g == "modified" || g == "moved"
		}
		return g == w
	}
	outcomes := map[string]int{}
	for k, ws := range want {
		gs := append([]string(nil), got[k]...)
		for _, w := range ws {
			outcomes[w]++
		}
		if len(gs) < len(ws) {
			cs.Violate(fmt.Sprintf("rule-missing state=%s", ws[0]), fmt.Sprintf("HEAD rule %v: %d copies at HEAD, %d in the entries pint would check", k, len(ws), len(gs)), input)
			continue
		}
		if len(gs) > len(ws) {
			cs.Violate("duplicate-entry", fmt.Sprintf("rule %v appears %d times in the entries, %d times at HEAD", k, len(gs), len(ws)), input)
			continue
		}
		// multiset comparison: exact states first, then the tolerant ones
		rest := []string{}
		for _, w := range ws {
			found := false
			for i, g := range gs {
				if g == w {
					gs = append(gs[:i], gs[i+1:]...)
					found = true
					break
				}
			}
			if !found {
				rest = append(rest, w)
			}
		}
		for _, w := range rest {
			found := false
			for i, g := range gs {
				if accepts(w, g) {
					gs = append(gs[:i], gs[i+1:]...)
					found = true
					break
				}
			}
			if !found {
				g := "?"
				if len(gs) > 0 {
					g = gs[0]
				}
				sev := "category"
				if (w != "noop") != (g != "noop") {
					sev = "changed-vs-unchanged"
				}
				cs.Violate(fmt.Sprintf("%s want=%s got=%s last-op=%s", sev, w, g, opClass(names[len(names)-1])),
					fmt.Sprintf("rule %v: pint says %v, a direct comparison of base and HEAD content says %v", k, got[k], ws), map[string]any{"history": names, "base_variant": variant, "head_files": headFiles(cur)})
				break
			}
		}
	}
	for k, g := range got {
		if _, ok := want[k]; !ok {
			cs.Violate("phantom-rule got="+g[0], fmt.Sprintf("pint reports rule %v in state %s but the model has no such rule at HEAD", k, g[0]), input)
		}
	}
	cs.Outcome = fmt.Sprintf("noop=%d added=%d modified=%d moved=%d", min(outcomes["noop"], 1), min(outcomes["added"], 1), min(outcomes["modified"], 1), min(outcomes["moved"]+outcomes["moved-or-modified"], 1))
	return cs
}

func opClass(n string) string {
	f := strings.Fields(n)
	if len(f) > 2 {
		return strings.Join(f[:2], "-")
	}
	return strings.Join(f, "-")
}

func headFiles(t tree) map[string]string {
	m := map[string]string{}
	for _, f := range t.files {
		m[f.path] = f.render()
	}
	return m
}

var maxDepth = 2

func main() {
	explore.Main(&explore.Config{
		Property: "C03", Level: "exploration",
		Rule: fmt.Sprintf("all branch histories of depth <=2 over an alphabet of %d concrete edit operations (thorough: also all of depth 3 over the operations on the first file and its first rule) (add/delete/rename file, rename+edit, add rule top/end, delete rule, change expr/label/annotation/for, add/remove rule-level and file-level pint comments, comment-only and blank-line edits, group interval, per file and rule index) over two base trees (plain; one with a byte-identical duplicate rule) plus revert-previous-commit and the base branch advancing after the fork (same file / other file); each history is built in a real git repository, the real GlobFinder+GitBranchFinder classify every HEAD rule, compared with a direct comparison of the generator's own base and HEAD records following file identity across renames", len(allOps)),
		Assumptions: []string{
			"rename+edit keeps the file similar enough for git's rename detection; a rule both moved and modified may be reported renamed or modified",
			"(kind, name) is unique per file in base variant 0; variant 1 has one byte-identical duplicate rule and states are compared as multisets per (file, kind, name)",
		},
		Spaces: []*explore.Space{{Name: "histories", Body: body, Bound: func(string) int { return -1 }, Setup: func(t string) {
			if t == "thorough" {
				maxDepth = 3
			}
		}}},
		BudgetS: func(t string) int {
			if t == "thorough" {
				return 2400
			}
			return 900
		},
	})
}
