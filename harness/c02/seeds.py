import glob, hashlib, os, re, sys
repo = os.environ.get("VERIF_REPO", "/repo")
out = os.path.join(sys.argv[1], "seeds")
os.makedirs(out, exist_ok=True)
for f in glob.glob(os.path.join(out, "*")):
    os.remove(f)
seen = {}
def add(src, body):
    if not body.strip():
        return
    if not any(k in body for k in ("expr", "record", "alert", "groups")):
        return
    if len(body) > 6000:
        return
    h = hashlib.sha1(body.encode("utf-8", "surrogateescape")).hexdigest()[:12]
    if h not in seen:
        seen[h] = (src, body)
# 1. txtar archives of the script tests
for p in sorted(glob.glob(os.path.join(repo, "cmd/pint/tests/*.txt"))):
    name, buf = None, []
    for line in open(p, encoding="utf-8", errors="surrogateescape").read().split("\n"):
        m = re.match(r"^-- (.+) --$", line)
        if m:
            if name and re.search(r"\.(ya?ml|rules)$", name):
                add(p + ":" + name, "\n".join(buf) + "\n")
            name, buf = m.group(1), []
        elif name:
            buf.append(line)
    if name and re.search(r"\.(ya?ml|rules)$", name):
        add(p + ":" + name, "\n".join(buf) + "\n")
# 2. raw-string literals in Go tests of the parser / discovery / checks
for p in sorted(glob.glob(os.path.join(repo, "internal/parser/*_test.go")) + glob.glob(os.path.join(repo, "internal/discovery/*_test.go")) + glob.glob(os.path.join(repo, "internal/checks/*_test.go")) + glob.glob(os.path.join(repo, "cmd/pint/*_test.go"))):
    src = open(p, encoding="utf-8", errors="surrogateescape").read()
    for m in re.finditer(r"`([^`]*)`", src):
        add(p, m.group(1) if m.group(1).endswith("\n") else m.group(1) + "\n")
    if "/parser/" in p:
        for m in re.finditer(r'"((?:[^"\\\n]|\\.)*)"', src):
            s = m.group(1)
            if "\\n" in s and ("expr" in s or "record" in s or "alert" in s):
                try:
                    body = bytes(s, "utf-8").decode("unicode_escape")
                except Exception:
                    continue
                add(p, body)
# 3. standalone files
for p in [os.path.join(repo, "internal/parser/testrules.yml")]:
    if os.path.exists(p):
        add(p, open(p, encoding="utf-8", errors="surrogateescape").read())
items = sorted(seen.items(), key=lambda kv: (kv[1][1].count("\n"), kv[0]))
for i, (h, (src, body)) in enumerate(items):
    open(os.path.join(out, "%04d_%s.yml" % (i, h)), "w", encoding="utf-8", errors="surrogateescape").write(body)
print("seeds:", len(items), file=sys.stderr)
