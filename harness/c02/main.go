// c02: linting any input terminates with a renderable verdict, never a crash. See DESIGN.md §2 C02.
package main

import (
	"context"
	"fmt"
	"os"
	"path/filepath"
	"strings"

	"github.com/prometheus/common/model"

	"github.com/cloudflare/pint/internal/checks"
	"github.com/cloudflare/pint/internal/config"
	"github.com/cloudflare/pint/internal/parser"
	"github.com/cloudflare/pint/verifharness/explore"
	"github.com/cloudflare/pint/verifharness/lib/pintbin"
	"github.com/cloudflare/pint/verifharness/lib/pipeline"
	"github.com/cloudflare/pint/verifharness/lib/rulegen"
)

var (
	cfg   config.Config
	gen   *config.PrometheusGenerator
	seeds []string
	tier  string
)

func setup(t string) {
	tier = t
	cfg = pipeline.DefaultConfig()
	gen = pipeline.Generator(cfg)
	// every space runs setup: whatever a process ran before, it ends with the same corpus. seedCorpus is compiled
	// into the binary (seeds_gen.go, written by prebuild.sh), so the master and all workers agree on it.
	seeds = seeds[:0]
	maxLines := 12
	maxBytes := 400
	if t == "thorough" {
		maxLines, maxBytes = 40, 1500
	}
	for _, b := range seedCorpus {
		if strings.Count(b, "\n") <= maxLines && len(b) <= maxBytes {
			seeds = append(seeds, b)
		}
	}
	if len(seeds) < 50 {
		panic(fmt.Sprintf("seed corpus missing or too small: %d seeds", len(seeds)))
	}
}

// totalLines is the renderers' notion of the file: strings.Split(content, "\n"), so the empty piece after a
// final newline counts (YAML reports "unexpected end of stream" there).
func totalLines(content string) int {
	return strings.Count(content, "\n") + 1
}

type mode struct {
	strict bool
	schema parser.Schema
	names  model.ValidationScheme
}

func (m mode) String() string {
	s := "relaxed"
	if m.strict {
		s = "strict"
	}
	if m.schema == parser.ThanosSchema {
		s += "/thanos"
	} else {
		s += "/prometheus"
	}
	return s
}

// verdict runs one file through parse -> checks -> all renderers and applies the C02 oracle.
func verdict(content string, m mode, cs *explore.Case) {
	inner := &explore.Case{}
	verdict1(content, m, inner)
	cs.Outcome = inner.Outcome
	if len(inner.Viol) > 0 && !hasLoneCR(content) && inner.Stats["fields_without_position"] > 0 {
		// root-cause class: diags.NewPositionRange found no (or not all) characters of a field value in the
		// file, so the field has an empty / short position range; problems then carry line 0 and the
		// console renderer panics (slices.Max on an empty list, lines[-1]).
		v := inner.Viol[0]
		sig := "field-position-range-incomplete"
		if inner.Stats["quoted_multiline_without_position"] == inner.Stats["fields_without_position"] || outdentedQuotedContinuation(content) {
			sig = "multiline-quoted-scalar-position-range-incomplete"
		}
		cs.Violate(sig, "a field value has an incomplete position range: "+v.What+" ("+v.Sig+")", v.Detail)
		return
	}
	if len(inner.Viol) > 0 && hasLoneCR(content) {
		// root-cause class: YAML treats a lone CR as a line break, pint and its reporters only split on LF,
		// so YAML line numbers run past pint's line count. One finding, whatever symptom shows first.
		v := inner.Viol[0]
		cs.Violate("lone-CR-line-break", "file with a CR that is not part of CRLF: "+v.What+" ("+v.Sig+")", v.Detail)
		return
	}
	cs.Viol = append(cs.Viol, inner.Viol...)
}

// outdentedQuotedContinuation: some line opens a quoted scalar it does not close and the next line is
// indented no deeper than that line's key.
func outdentedQuotedContinuation(content string) bool {
	ls := strings.Split(content, "\n")
	ind := func(l string) int { return len(l) - len(strings.TrimLeft(l, " ")) }
	for i := 0; i+1 < len(ls); i++ {
		for _, q := range []string{"\"", "'"} {
			if strings.Count(ls[i], q)%2 == 1 && strings.Contains(ls[i], ": "+q) && ind(ls[i+1]) <= ind(ls[i]) {
				return true
			}
		}
	}
	return false
}

func hasLoneCR(s string) bool {
	for i := 0; i < len(s); i++ {
		if s[i] == '\r' && (i+1 >= len(s) || s[i+1] != '\n') {
			return true
		}
	}
	return false
}

func verdict1(content string, m mode, cs *explore.Case) {
	path := pipeline.WriteFile("rules.yml", []byte(content))
	entries, crash := pipeline.Parse(path, []byte(content), m.strict, m.schema, m.names)
	if crash != nil {
		cs.Violate("panic:"+crash.Site, "panic while parsing: "+crash.Value, map[string]any{"file": content, "mode": m.String(), "stack": crash.Stack})
		return
	}
	for _, e := range entries {
		for _, f := range pipeline.Fields(e.Rule) {
			if f.Node != nil && len(f.Node.Value) > 0 && f.Node.Pos.Len() < len(strings.ReplaceAll(strings.ReplaceAll(f.Node.Value, " ", ""), "\n", "")) {
				cs.Count("fields_without_position", 1)
				if len(f.Node.Pos) > 0 {
					p0 := f.Node.Pos[0]
					ls := strings.Split(content, "\n")
					if p0.Line >= 1 && p0.Line <= len(ls) && p0.FirstColumn >= 2 && p0.FirstColumn-2 < len(ls[p0.Line-1]) {
						if q := ls[p0.Line-1][p0.FirstColumn-2]; (q == '"' || q == '\'') && strings.Count(ls[p0.Line-1], string(q))%2 == 1 {
							cs.Count("quoted_multiline_without_position", 1)
						}
					}
				}
			}
		}
	}
	reports, crash := pipeline.Lint(context.Background(), config.LintCommand, cfg, gen, entries)
	if crash != nil {
		cs.Violate("panic:"+crash.Site, "panic while running checks: "+crash.Value, map[string]any{"file": content, "mode": m.String(), "stack": crash.Stack})
		return
	}
	// every parse failure becomes exactly the error report
	nErr := 0
	for _, e := range entries {
		if e.PathError != nil || e.Rule.Error.Err != nil {
			nErr++
		}
	}
	nErrReports := 0
	for _, r := range reports {
		switch r.Problem.Reporter {
		case "yaml/parse", "ignore/file", "pint/comment", "rule/owner":
			nErrReports++
		}
	}
	// Summary.Report() drops reports equal to an earlier one, so compare distinct error entries
	if nErr > 0 && nErrReports == 0 {
		cs.Violate("lost-parse-failure", fmt.Sprintf("%d entries carry a parse error but no error report was produced", nErr), map[string]any{"file": content, "mode": m.String()})
	}
	tl := totalLines(content)
	for _, r := range reports {
		l := r.Problem.Lines
		if !(1 <= l.First && l.First <= l.Last && l.Last <= tl) {
			cs.Violate(fmt.Sprintf("lines-outside-file reporter=%s", r.Problem.Reporter),
				fmt.Sprintf("problem line range %d-%d is not inside the file (%d lines)", l.First, l.Last, tl),
				map[string]any{"file": content, "mode": m.String(), "summary": r.Problem.Summary})
		}
		for _, d := range r.Problem.Diagnostics {
			for _, p := range d.Pos {
				if p.Line < 1 || p.Line > tl || p.FirstColumn < 1 || p.LastColumn < p.FirstColumn {
					cs.Violate(fmt.Sprintf("diagnostic-outside-file reporter=%s", r.Problem.Reporter),
						fmt.Sprintf("diagnostic position line=%d cols=%d-%d outside the file (%d lines)", p.Line, p.FirstColumn, p.LastColumn, tl),
						map[string]any{"file": content, "mode": m.String(), "summary": r.Problem.Summary, "message": d.Message})
				}
			}
		}
	}
	_, _, err, crash := pipeline.Render(reports, checks.Information, true)
	if crash != nil {
		cs.Violate("panic:"+crash.Site, "panic while rendering: "+crash.Value, map[string]any{"file": content, "mode": m.String(), "stack": crash.Stack})
		return
	}
	if err != nil {
		cs.Violate("render-error", "a reporter failed: "+err.Error(), map[string]any{"file": content, "mode": m.String()})
	}
	_, _, err, crash = pipeline.Render(reports, checks.Warning, false)
	if crash != nil {
		cs.Violate("panic:"+crash.Site, "panic while rendering (folded duplicates): "+crash.Value, map[string]any{"file": content, "mode": m.String(), "stack": crash.Stack})
		return
	}
	if err != nil {
		cs.Violate("render-error", "a reporter failed: "+err.Error(), map[string]any{"file": content, "mode": m.String()})
	}
	cs.Outcome = fmt.Sprintf("%s entries=%d errs=%d reports=%d", m.String(), min(len(entries), 3), min(nErr, 2), min(len(reports), 3))
}

var modes = []mode{
	{true, parser.PrometheusSchema, model.UTF8Validation},
	{false, parser.PrometheusSchema, model.UTF8Validation},
	{true, parser.ThanosSchema, model.LegacyValidation},
	{false, parser.ThanosSchema, model.LegacyValidation},
}

func semantic(c *explore.Chooser) *explore.Case {
	mi := c.Free(len(modes), "mode")
	d := rulegen.Semantic(c)
	cs := &explore.Case{Input: map[string]any{"deviations": d.Deviations, "file": d.Text, "mode": modes[mi].String()}, Key: modes[mi].String() + d.Text}
	verdict(d.Text, modes[mi], cs)
	return cs
}

var insertAlphabet = []string{":", "-", "#", "'", "\"", "{", "[", "&", "*", "|", ">", "!", "%", "\t", "\r", " ", "\xff", "\n", "}", "]", ",", "?", "<", "~", "\x00", "é"}
var quickAlphabet = 18

var pintComments = []string{
	"# pint ignore/line", "# pint ignore/next-line", "# pint ignore/begin", "# pint ignore/end", "# pint ignore/file",
	"# pint disable promql/series", "# pint file/disable promql/series", "# pint snooze 2099-01-01 promql/series", "# pint file/snooze 2099-01-01 promql/series",
	"# pint file/owner bob", "# pint rule/owner bob", "# pint rule/set promql/series min-age 1d", "# pint bogus", "# pint disable", "# pint snooze xxx promql/series", "# pint", "#pint ignore/line",
}

var tokens = []string{"~", "1", "true", "[]", "{}", `""`, "|", ">-", "*a", "&a x", "!!binary x", "<<", `"\x75p{job=~\"x\"}"`, `"a\tb"`, `'it''s'`, `"\u00e9 > 0"`, `"up == 0 \
    or up == 1"`, `"a\nb\nc"`, `"groups:\n- name: g\n  rules:\n  - record: r\n    expr: up\n"`}

func seedBody(c *explore.Chooser) *explore.Case {
	mi := c.Free(2, "mode") // strict / relaxed, prometheus schema
	si := c.Free(len(seeds), "seed")
	seed := seeds[si]
	lines := strings.Split(strings.TrimSuffix(seed, "\n"), "\n")
	class := c.Free(6, "class")
	var text, what string
	switch class {
	case 0: // unmutated + whole-file transformations
		k := c.Free(9, "file-op")
		switch k {
		case 0:
			text, what = seed, "none"
		case 1:
			text, what = strings.ReplaceAll(seed, "\n", "\r\n"), "crlf"
		case 2:
			text, what = strings.ReplaceAll(seed, "\n", "\r"), "cr"
		case 3:
			text, what = strings.TrimSuffix(seed, "\n"), "no-final-newline"
		case 4:
			text, what = "\xef\xbb\xbf"+seed, "bom"
		case 5:
			text, what = strings.ReplaceAll(seed, "  ", "\t"), "tabs"
		case 6:
			text, what = seed+seed, "doubled"
		case 7: // a physical line longer than any line-buffer size in use (64 KiB scanners, 4 KiB readers)
			text, what = "# "+strings.Repeat("x", 70000)+"\n"+seed, "70 kB comment line on top"
		case 8:
			if i := strings.Index(seed, "\n"); i >= 0 {
				text, what = seed[:i]+" # "+strings.Repeat("x", 70000)+seed[i:], "70 kB trailing comment on the first line"
			} else {
				return &explore.Case{Skip: true}
			}
		}
	case 1: // line-level structural
		kind := c.Free(10, "line-op")
		i := c.Free(len(lines), "line")
		out := append([]string(nil), lines...)
		switch kind {
		case 0:
			out = append(out[:i], out[i+1:]...)
		case 1:
			out = append(out[:i+1], append([]string{lines[i]}, out[i+1:]...)...)
		case 2:
			if i+1 >= len(lines) {
				return &explore.Case{Skip: true}
			}
			out[i], out[i+1] = out[i+1], out[i]
		case 3:
			out[i] = " " + out[i]
		case 4:
			out[i] = "  " + out[i]
		case 5:
			if !strings.HasPrefix(out[i], " ") {
				return &explore.Case{Skip: true}
			}
			out[i] = out[i][1:]
		case 6:
			if !strings.HasPrefix(out[i], "  ") {
				return &explore.Case{Skip: true}
			}
			out[i] = out[i][2:]
		case 7, 8, 9: // key: &a / key: *a / <<: *a
			k := strings.Index(out[i], ": ")
			if k < 0 {
				return &explore.Case{Skip: true}
			}
			switch kind {
			case 7:
				out[i] = out[i][:k+2] + "&a " + out[i][k+2:]
			case 8:
				out[i] = out[i][:k+2] + "*a"
			case 9:
				ind := len(out[i]) - len(strings.TrimLeft(out[i], " -"))
				out[i] = strings.Repeat(" ", ind) + "<<: *a"
			}
		}
		text = strings.Join(out, "\n") + "\n"
		what = fmt.Sprintf("line-op %d @%d", kind, i+1)
	case 2: // append a pint comment to a line / insert it as its own line
		i := c.Free(len(lines), "line")
		k := c.Free(len(pintComments), "comment")
		own := c.Free(2, "own-line")
		out := append([]string(nil), lines...)
		if own == 1 {
			out = append(out[:i], append([]string{pintComments[k]}, out[i:]...)...)
		} else {
			out[i] = out[i] + " " + pintComments[k]
		}
		text = strings.Join(out, "\n") + "\n"
		what = fmt.Sprintf("comment %q @%d own=%d", pintComments[k], i+1, own)
	case 3: // replace the scalar after "key: " by a token
		i := c.Free(len(lines), "line")
		k := strings.Index(lines[i], ": ")
		if k < 0 {
			if strings.HasSuffix(lines[i], ":") {
				k = len(lines[i]) - 1
			} else {
				return &explore.Case{Skip: true}
			}
		}
		t := c.Free(len(tokens), "token")
		out := append([]string(nil), lines...)
		out[i] = lines[i][:k+1] + " " + tokens[t]
		text = strings.Join(out, "\n") + "\n"
		what = fmt.Sprintf("token %q @%d", tokens[t], i+1)
	case 4: // byte insertion
		n := len(insertAlphabet)
		if tier != "thorough" {
			n = quickAlphabet
		}
		off := c.Free(len(seed)+1, "offset")
		ch := c.Free(n, "char")
		text = seed[:off] + insertAlphabet[ch] + seed[off:]
		what = fmt.Sprintf("insert %q @%d", insertAlphabet[ch], off)
	case 5: // byte deletion
		off := c.Free(len(seed), "offset")
		text = seed[:off] + seed[off+1:]
		what = fmt.Sprintf("delete @%d", off)
	}
	if class >= 1 && class <= 3 && c.Free(2, "final-newline") == 1 {
		text, what = strings.TrimSuffix(text, "\n"), what+" no-final-newline"
	}
	cs := &explore.Case{Input: map[string]any{"seed": si, "mutation": what, "file": text, "mode": modes[mi].String()}, Key: modes[mi].String() + text}
	verdict(text, modes[mi], cs)
	return cs
}

// binary: the shipped command with the lint flags that add code paths of their own (ownership verification,
// every output format at once) on every generated document with at most one deviation, strict and relaxed.
func binary(c *explore.Chooser) *explore.Case {
	d := rulegen.Semantic(c)
	relaxed := c.Free(2, "relaxed") == 1
	flags := [][]string{{"--require-owner"}, {"--require-owner", "--checkstyle", "cs.xml", "--json", "out.json"}, {"--teamcity", "--min-severity", "info"}, {"--show-duplicates", "--fail-on", "info"}}[c.Free(4, "flags")]
	dir := pintbin.Scratch("c02bin")
	defer os.RemoveAll(dir)
	cfgText := ""
	if relaxed {
		cfgText = "parser {\n  relaxed = [\".*\"]\n}\n"
	}
	os.WriteFile(filepath.Join(dir, ".pint.hcl"), []byte(cfgText), 0o644)
	os.WriteFile(filepath.Join(dir, "rules.yml"), []byte(d.Text), 0o644)
	args := append([]string{"--offline", "-c", ".pint.hcl", "lint"}, flags...)
	args = append(args, "rules.yml")
	res := pintbin.Run(dir, "", nil, args...)
	input := map[string]any{"deviations": d.Deviations, "file": d.Text, "args": strings.Join(args, " "), "relaxed": relaxed}
	cs := &explore.Case{Input: input, Key: fmt.Sprint(relaxed, flags) + d.Text, Trivial: len(d.Deviations) == 0, Outcome: fmt.Sprintf("binary exit=%d", res.Exit)}
	if res.Panicked {
		site := "unknown"
		for _, l := range strings.Split(res.Stderr, "\n") {
			if strings.HasPrefix(l, "github.com/cloudflare/pint/") || strings.HasPrefix(l, "main.") {
				site = l
				if i := strings.IndexByte(site, '('); i > 0 {
					site = site[:i]
				}
				break
			}
		}
		cs.Violate("panic:binary:"+site, "pint "+strings.Join(args, " ")+" panics", map[string]any{"input": input, "stderr": res.Stderr})
	} else if res.Exit != 0 && res.Exit != 1 {
		cs.Violate(fmt.Sprintf("binary-exit-%d", res.Exit), "unexpected exit status", map[string]any{"input": input, "stderr": res.Stderr})
	}
	return cs
}

func main() {
	explore.Main(&explore.Config{
		Property: "C02", Level: "exploration",
		Rule: "(a) all structurally generated documents with <=2 deviations (3 thorough) x {strict,relaxed} x {prometheus+utf8, thanos+legacy}; (b) seed corpus = every YAML body of the repository's fixtures up to 12 lines/400 bytes (thorough: 40 lines/1500 bytes) x {strict,relaxed} x ALL single mutations: 7 whole-file transforms, 10 line ops at every line, 17 pint comments appended to / inserted at every line, 12 token replacements at every key, every byte deleted, every byte offset x 18 (thorough 26) inserted characters; distinct = distinct (mode, bytes); (c) the real binary with --require-owner / all output formats at once / --teamcity / --show-duplicates on every generated document with <=1 deviation (2 thorough), strict and relaxed: no panic, exit status 0 or 1",
		Assumptions: []string{
			"checks run through the sequential library seam (same loop as scan.go without the goroutine fan-out); a panic there is a panic of the shipped command because scanWorker does not recover",
			"hang detection = no progress for 120 s on a case that normally takes <5 ms",
			"byte strings that are not within one mutation of a fixture or two/three deviations of the skeleton are not covered",
		},
		Spaces: []*explore.Space{
			{Name: "semantic", Body: semantic, Setup: setup, Bound: func(t string) int {
				if t == "thorough" {
					return 3
				}
				return 2
			}},
			{Name: "seeds", Body: seedBody, Setup: setup, Bound: func(string) int { return -1 }},
			{Name: "binary", Body: binary, Setup: setup, Bound: func(t string) int {
				if t == "thorough" {
					return 2
				}
				return 1
			}},
		},
		BudgetS: func(t string) int {
			if t == "thorough" {
				return 2400
			}
			return 900
		},
		CrashSig: "crash",
	})
}
