// c04: a 'non-existent label' template report is never a false positive. DESIGN.md §2 C04.
package main

import (
	"context"
	"fmt"
	"os"
	"regexp"
	"sort"
	"strings"
	"time"

	"github.com/prometheus/common/model"
	"github.com/prometheus/prometheus/model/labels"
	"github.com/prometheus/prometheus/promql"
	promParser "github.com/prometheus/prometheus/promql/parser"

	"github.com/cloudflare/pint/internal/checks"
	"github.com/cloudflare/pint/internal/parser"
	"github.com/cloudflare/pint/internal/parser/utils"
	"github.com/cloudflare/pint/verifharness/explore"
	"github.com/cloudflare/pint/verifharness/lib/pipeline"
	"github.com/cloudflare/pint/verifharness/lib/promqlgen"
	"github.com/cloudflare/pint/verifharness/lib/promqlsim"
)

var universe = []string{"a", "b", "c", "__name__"}

var (
	engine  *promql.Engine
	evalAt  = time.Date(2024, 3, 10, 12, 0, 0, 0, time.UTC)
	perMet  = map[string][]promqlsim.Series{}
	dbCache = map[string][]promqlsim.DB{}
	tier    string
)

// all expressions with <=3 operator nodes of this small alphabet are part of the thorough tier (complete)
var mini = promqlgen.Alphabet{
	Metrics:   []string{"foo", "bar"},
	Matchers:  []string{"", `a="x"`},
	Unary:     []string{"sum(%s)", "sum by(a) (%s)", "sum without(a) (%s)", "abs(%s)"},
	BinOps:    []string{"and", "*"},
	Modifiers: []string{"", "on(a)", "on(b) group_left(a)"},
	Scalars:   []string{"1"},
	Extra:     []string{"vector(1)"},
}

var (
	probe      []string
	chainOps   = []string{"*", "and", "or", "unless"}
	chainRight = []string{"bar", "sum(bar)", "sum by(a) (bar)", "vector(1)", "sum by(a, b) (bar)"}
	orAlts     = []string{"foo", `foo{a="x"}`, "sum(foo)", "sum by(a) (foo)", "vector(1)"}
	orRight    = []string{"bar", `bar{a="x"}`, "sum(bar)", "sum by(a) (bar)", "vector(1)"}
	reOps      = []string{"and", "unless", "*", "or"}
	reMod1     = []string{"", "on(a)", "ignoring(b)", "on(a, a)"}
	reAgg      = []string{"sum without(a) (%s)", "sum without(a, a) (%s)", "sum by(b) (%s)", "sum by(b, b) (%s)", "sum by(a, b) (%s)", "min without(a, c) (%s)", "sum(%s)"}
	reMod2     = []string{"on(b) group_left(a)", "on(b) group_left(a, a)", "ignoring(a) group_left(a)", "ignoring(a, a) group_left(a)", "ignoring(a, c) group_left(a)", "on(b) group_left()", "on(b, b) group_left(a)", "on(b) group_right(a)", "on(b) group_left(a, c)", "on(b) group_left(c, a)"}
	reSel3     = []string{"foo", "bar", `foo{a="x"}`}
)

func setup(t string) {
	tier = t
	if f := os.Getenv("VERIF_C04_PROBE"); f != "" {
		b, _ := os.ReadFile(f)
		for _, l := range strings.Split(string(b), "\n") {
			if strings.TrimSpace(l) != "" {
				probe = append(probe, l)
			}
		}
	}
	engine = promqlsim.NewEngine()
	for _, m := range []string{"foo", "bar"} {
		for _, a := range []string{"", "x", "y"} {
			for _, b := range []string{"", "x"} {
				for _, c := range []string{"", "x"} {
					ls := []string{"__name__", m}
					if a != "" {
						ls = append(ls, "a", a)
					}
					if b != "" {
						ls = append(ls, "b", b)
					}
					if c != "" {
						ls = append(ls, "c", c)
					}
					perMet[m] = append(perMet[m], promqlsim.Steady(labels.FromStrings(ls...), evalAt.Add(-12*time.Minute), evalAt, 1, true))
				}
			}
		}
	}
}

// dbs returns every database with at most k series of the given metrics.
func dbs(metrics map[string]bool, k int) []promqlsim.DB {
	var names []string
	for m := range metrics {
		names = append(names, m)
	}
	sort.Strings(names)
	key := fmt.Sprint(names, k)
	if d, ok := dbCache[key]; ok {
		return d
	}
	var pool []promqlsim.Series
	for _, m := range names {
		pool = append(pool, perMet[m]...)
	}
	out := []promqlsim.DB{{}}
	var rec func(start int, cur promqlsim.DB)
	rec = func(start int, cur promqlsim.DB) {
		if len(cur) == k {
			return
		}
		for i := start; i < len(pool); i++ {
			next := append(append(promqlsim.DB{}, cur...), pool[i])
			out = append(out, next)
			rec(i+1, next)
		}
	}
	rec(0, nil)
	dbCache[key] = out
	return out
}

var (
	reMetric = regexp.MustCompile(`\b(foo|bar)\b`)
	reQuoted = regexp.MustCompile(`"[^"]*"`)
)

// shape abstracts metric names and literals: the root-cause signature of a violation.
func shape(expr string) string {
	s := reQuoted.ReplaceAllString(expr, `"_"`)
	s = reMetric.ReplaceAllString(s, "M")
	return s
}

func reportedLabels(expr string) (map[string]bool, string) {
	yaml := "- alert: A\n  expr: " + fmt.Sprintf("%q", expr) + "\n  annotations:\n    summary: 'a={{ $labels.a }} b={{ $labels.b }} c={{ $labels.c }} n={{ $labels.__name__ }}'\n"
	entries, crash := pipeline.Parse("r.yml", []byte(yaml), false, parser.PrometheusSchema, model.UTF8Validation)
	if crash != nil || len(entries) != 1 || entries[0].Rule.AlertingRule == nil {
		return nil, "cannot build the alert rule"
	}
	out := map[string]bool{}
	for _, p := range checks.NewTemplateCheck().Check(context.Background(), entries[0], entries) {
		if p.Summary != "template uses non-existent label" {
			continue
		}
		for _, l := range universe {
			if strings.Contains(p.Diagnostics[0].Message, "`"+l+"` label") {
				out[l] = true
			}
		}
	}
	return out, ""
}

func body(c *explore.Chooser) *explore.Case {
	// sub-spaces: 0 = <=1 operator over the full alphabet; 1 = core unary wrapper around <=1 operator (core);
	// thorough adds core2 = all <=2-operator expressions of the core alphabet (complete)
	subs := []string{"full1", "wrapped", "chain", "reinclude", "orjoin"}
	if tier == "thorough" {
		subs = append(subs, "core2", "mini3") // complete; all <=2-operator expressions of the full alphabet (~130 M) would only ever be a time-capped sample
	}
	if len(probe) > 0 { // VERIF_C04_PROBE=file: examine exactly the expressions listed there (debugging aid)
		subs = []string{"probe"}
	}
	var e promqlgen.Expr
	var ok bool
	k := 2
	core := &promqlgen.Core
	pick := func(l []string, tag string) string { return l[c.Free(len(l), tag)] }
	switch subs[c.Free(len(subs), "subspace")] {
	case "probe":
		e = promqlgen.Expr{Text: pick(probe, "probe"), Metrics: map[string]bool{"foo": true, "bar": true}}
		ok = true
	case "full1":
		e, ok = promqlgen.Gen(c, &promqlgen.Full, 1, "e")
	case "wrapped":
		u := c.Free(len(promqlgen.Core.Unary), "outer")
		var in promqlgen.Expr
		in, ok = promqlgen.Gen(c, &promqlgen.Core, 1, "e")
		if ok && (in.Scalar || in.Ops == 0) {
			ok = false // covered by sub-space full1
		}
		if ok {
			e = promqlgen.Expr{Text: fmt.Sprintf(promqlgen.Core.Unary[u], in.Text), Metrics: in.Metrics, Ops: in.Ops + 1}
		}
	case "chain":
		// U2(U1(foo{..})) OP MOD R, both orientations: two stacked label transformations feeding a join
		u2, u1 := pick(core.Unary, "u2"), pick(core.Unary, "u1")
		sel := "foo"
		if m := pick(core.Matchers, "m"); m != "" {
			sel = "foo{" + m + "}"
		}
		op, mod, r := pick(chainOps, "op"), pick(core.Modifiers, "mod"), pick(chainRight, "r")
		l := fmt.Sprintf(u2, fmt.Sprintf(u1, sel))
		if c.Free(2, "flip") == 1 {
			l, r = r, l
		}
		e = promqlgen.Expr{Text: "(" + l + ") " + op + " " + mod + " (" + r + ")", Metrics: map[string]bool{"foo": true, "bar": true}, Ops: 3}
		ok = true
	case "reinclude":
		// SEL OP MOD1 (AGG(bar) * MOD2 SEL3): a label removed by an aggregation (lists with repeated names too)
		// and brought back by group_left/right, then flowing through an outer join
		sel := "foo"
		if m := pick(core.Matchers, "m"); m != "" {
			sel = "foo{" + m + "}"
		}
		op, mod1, agg, mod2, sel3 := pick(reOps, "op"), pick(reMod1, "mod1"), pick(reAgg, "agg"), pick(reMod2, "mod2"), pick(reSel3, "sel3")
		inner := fmt.Sprintf(agg, "bar") + " * " + mod2 + " " + sel3
		if strings.Contains(mod2, "group_right") {
			inner = sel3 + " * " + mod2 + " " + fmt.Sprintf(agg, "bar")
		}
		e = promqlgen.Expr{Text: sel + " " + op + " " + mod1 + " (" + inner + ")", Metrics: map[string]bool{"foo": true, "bar": true}, Ops: 3}
		if c.Free(2, "flip") == 1 {
			e.Text = "(" + inner + ") " + op + " " + mod1 + " " + sel
		}
		ok = true
	case "orjoin":
		// (L1 or L2) OP MOD R, both orientations: several result branches on one side of a join
		l1, l2 := pick(orAlts, "l1"), pick(orAlts, "l2")
		op, mod, r := pick(chainOps, "op"), pick(core.Modifiers, "mod"), pick(orRight, "r")
		l := l1 + " or " + l2
		if c.Free(2, "flip") == 1 {
			l, r = r, l
		}
		e = promqlgen.Expr{Text: "(" + l + ") " + op + " " + mod + " (" + r + ")", Metrics: map[string]bool{"foo": true, "bar": true}, Ops: 3}
		ok = true
	case "core2":
		e, ok = promqlgen.Gen(c, &promqlgen.Core, 2, "e")
	case "mini3":
		e, ok = promqlgen.Gen(c, &mini, 3, "e")
	case "full2":
		e, ok = promqlgen.Gen(c, &promqlgen.Full, 2, "e")
	}
	if !ok || e.Scalar {
		return &explore.Case{Skip: true}
	}
	node, err := promParser.ParseExpr(e.Text)
	if err != nil {
		return &explore.Case{Skip: true}
	}
	if t := node.Type(); t != promParser.ValueTypeVector {
		return &explore.Case{Skip: true}
	}
	src := utils.LabelsSource(e.Text, node)
	var live []utils.Source
	claims := 0
	for _, s := range src {
		if s.IsDead {
			claims++
			continue
		}
		live = append(live, s)
		for _, l := range universe {
			if !s.CanHaveLabel(l) {
				claims++
			}
		}
	}
	cs := &explore.Case{Input: map[string]any{"expr": e.Text}, Key: e.Text}
	if claims == 0 {
		cs.Trivial = true
		cs.Outcome = "no-claim"
		return cs
	}
	reported, herr := reportedLabels(e.Text)
	if herr != "" {
		cs.Violate("harness:"+herr, herr, e.Text)
		return cs
	}
	single := len(src) == 1
	cs.Outcome = fmt.Sprintf("branches=%d live=%d reported=%d", min(len(src), 3), min(len(live), 3), min(len(reported), 2))
	evals, nonempty := 0, 0
	for _, db := range dbs(e.Metrics, k) {
		vec, err := promqlsim.Instant(engine, db, e.Text, evalAt)
		evals++
		if err != nil || len(vec) == 0 {
			continue // engine errors (many-to-many matching) count as no result
		}
		nonempty++
		for _, smp := range vec {
			have := map[string]bool{}
			smp.Metric.Range(func(l labels.Label) {
				if l.Value != "" {
					have[l.Name] = true
				}
			})
			// (i) single branch: a reported label never appears
			if single {
				for l := range reported {
					if have[l] {
						cs.Violate("false-positive: "+shape(e.Text), fmt.Sprintf("alerts/template reports label %q as non-existent for `%s` but Prometheus returns %s", l, e.Text, smp.Metric), map[string]any{"expr": e.Text, "database": describe(db), "series": smp.Metric.String()})
						cs.Count("engine_evaluations", int64(evals))
						return cs
					}
				}
			}
			// (ii) every returned series is consistent with at least one live branch
			consistent := false
			for _, s := range live {
				okS := true
				for l := range have {
					if !s.CanHaveLabel(l) {
						okS = false
						break
					}
				}
				if okS {
					consistent = true
					break
				}
			}
			if !consistent {
				// root-cause class: the series comes from the right-hand side of `X or Y` that pint declared dead
				// because X always returns something, although `or` only drops Y's series whose matching
				// labels equal those of an X series (X is label-less, Y's series are not)
				for _, s := range src {
					if !s.IsDead || !strings.HasPrefix(s.IsDeadReason, "the left hand side always retur") {
						continue
					}
					okS := true
					for l := range have {
						if !s.CanHaveLabel(l) {
							okS = false
						}
					}
					if okS {
						cs.Violate("or-rhs-declared-dead-after-always-returning-lhs", fmt.Sprintf("Prometheus returns %s for `%s` from the right-hand side of `or`, which pint declares dead code", smp.Metric, e.Text), map[string]any{"expr": e.Text, "database": describe(db), "series": smp.Metric.String(), "branches": describeSources(src)})
						cs.Count("engine_evaluations", int64(evals))
						return cs
					}
				}
				cs.Violate("no-consistent-branch: "+deadClass(src, e.Text), fmt.Sprintf("Prometheus returns %s for `%s`, which carries a label that every live branch pint derived cannot have (%d branches, %d live)", smp.Metric, e.Text, len(src), len(live)), map[string]any{"expr": e.Text, "database": describe(db), "series": smp.Metric.String(), "branches": describeSources(src)})
				cs.Count("engine_evaluations", int64(evals))
				return cs
			}
		}
	}
	cs.Count("engine_evaluations", int64(evals))
	cs.Count("nonempty_results", int64(nonempty))
	if nonempty == 0 {
		cs.Count("expressions_never_returning_data", 1)
	}
	return cs
}

var reTick = regexp.MustCompile("`[^`]*`")
var reNum = regexp.MustCompile(`[0-9]+`)

// deadClass is the root-cause class of an inconsistency: the (normalised) reasons pint gave for declaring
// branches dead plus the features of the expression those reasons do not take into account.
func deadClass(src []utils.Source, expr string) string {
	seen := map[string]bool{}
	var rs []string
	for _, s := range src {
		if !s.IsDead {
			continue
		}
		r := reNum.ReplaceAllString(reTick.ReplaceAllString(s.IsDeadReason, "_"), "N")
		if len(r) > 70 {
			r = r[:70]
		}
		if !seen[r] {
			seen[r] = true
			rs = append(rs, r)
		}
	}
	sort.Strings(rs)
	var feats []string
	for _, f := range []string{"bool", "absent(", "absent_over_time(", " or ", "unless", "group_left", "group_right", "count_values", "label_replace", "label_join"} {
		if strings.Contains(expr, f) {
			feats = append(feats, strings.Trim(f, " ("))
		}
	}
	if reMetric.MatchString(expr) {
		feats = append(feats, "selector")
	}
	if len(rs) == 0 {
		return "live-branches-only " + shape(expr)
	}
	if len(rs) == 1 && rs[0] == "" && strings.Contains(expr, "bool") {
		// a dead static `bool` comparison nested in a further comparison: the outer one inherits "dead" without a reason
		return "static-comparison-with-bool-modifier-declared-dead"
	}
	if len(rs) == 1 && strings.Contains(rs[0], "query always retur") && unlessRHSHasSelector(expr) {
		// `X unless on() (vector(1) * foo)`: the constant's "always returns" survived a binary operation whose
		// result depends on a selector
		return "static-value-assumed-through-vector-matching"
	}
	if len(rs) == 1 && strings.Contains(rs[0], "always evaluates to") {
		// two recognisable root causes of a wrong "this comparison can never be true" verdict
		if strings.Contains(expr, "bool") {
			return "static-comparison-with-bool-modifier-declared-dead"
		}
		if reMetric.MatchString(expr) || strings.Contains(expr, "on(") || strings.Contains(expr, "ignoring(") {
			return "static-value-assumed-through-vector-matching"
		}
		if strings.Contains(expr, "group(") || strings.Contains(expr, "group by") || strings.Contains(expr, "group without") {
			return "static-value-assumed-through-group-aggregation"
		}
	}
	return fmt.Sprintf("dead=%v with=%v", rs, feats)
}

// unlessRHSHasSelector: some `unless on()` in expr has a right-hand side that is a binary operation involving a selector.
func unlessRHSHasSelector(expr string) bool {
	node, err := promParser.ParseExpr(expr)
	if err != nil {
		return false
	}
	found := false
	promParser.Inspect(node, func(n promParser.Node, _ []promParser.Node) error {
		b, ok := n.(*promParser.BinaryExpr)
		if !ok || b.Op != promParser.LUNLESS || b.VectorMatching == nil || !b.VectorMatching.On || len(b.VectorMatching.MatchingLabels) != 0 {
			return nil
		}
		rhs := promParser.Expr(b.RHS)
		for {
			if p, ok := rhs.(*promParser.ParenExpr); ok {
				rhs = p.Expr
				continue
			}
			break
		}
		if rb, ok := rhs.(*promParser.BinaryExpr); ok {
			r := rb.PositionRange()
			if reMetric.MatchString(expr[r.Start:r.End]) {
				found = true
			}
		}
		return nil
	})
	return found
}

func describe(db promqlsim.DB) []string {
	var out []string
	for _, s := range db {
		out = append(out, s.Labels.String())
	}
	return out
}

func describeSources(src []utils.Source) []string {
	var out []string
	for _, s := range src {
		var cant []string
		for _, l := range universe {
			if !s.CanHaveLabel(l) {
				cant = append(cant, l)
			}
		}
		out = append(out, fmt.Sprintf("op=%q dead=%v fixed=%v included=%v excluded=%v guaranteed=%v cannot-have=%v", s.Operation, s.IsDead, s.FixedLabels, s.IncludedLabels, s.ExcludedLabels, s.GuaranteedLabels, cant))
	}
	return out
}

func main() {
	explore.Main(&explore.Config{
		Property: "C04", Level: "exploration",
		Rule: "PromQL expressions enumerated from a grammar (selectors x matcher sets, aggregations with by/without, topk/count_values/label_replace/label_join/absent/range functions/subquery/offset, arithmetic/comparison/set operators x on/ignoring/group_left/group_right modifiers): quick = the 3-operator shapes chain (U2(U1(sel)) op mod R, both orientations, core unary/modifiers) reinclude (sel op mod1 (agg(bar) * mod2 sel3), label lists with repeated names) and orjoin ((L1 or L2) op mod R, both orientations), all with <=1 operator node over the full alphabet and every core unary wrapper around every <=1-operator core expression; thorough adds all with <=2 operator nodes over the core alphabet (2.6 M expressions, complete; the full alphabet has ~130 M and would only ever be a time-capped sample, so it is not part of the tier) and all with <=3 operator nodes over a small alphabet (2 matcher sets, 4 wrappers, 2 operators, 3 modifiers; complete). Every expression on which pint makes a claim (a branch that cannot have some label of {a,b,c,__name__}, or a dead branch) is evaluated by the vendored Prometheus engine on EVERY database of <=2 series drawn from {foo,bar} x {a: absent|x|y} x {b: absent|x} x {c: absent|x}; oracle (i) labels the real alerts/template check reports for single-branch queries never appear on a returned series, (ii) every returned series is consistent with some live branch. distinct = expression text; non-trivial = pint makes a claim",
		Assumptions: []string{
			"the engine (promql.NewEngine of the vendored Prometheus) over our 60-line in-memory storage is the truth; one evaluation instant, 5m lookback, rising samples every minute",
			"engine errors (many-to-many matching) count as no result",
			"'whatever data is stored' is cut to <=k series over a 3-label universe",
		},
		Spaces: []*explore.Space{{Name: "expressions", Body: body, Setup: setup, Bound: func(string) int { return -1 }}},
		BudgetS: func(t string) int {
			if t == "thorough" {
				return 2400
			}
			return 900
		},
		Finish: func(t string, agg *explore.Aggregate) ([]explore.Violation, string) {
			if agg.Stats["nonempty_results"] < 10000 {
				return nil, fmt.Sprintf("vacuity guard: only %d non-empty engine results", agg.Stats["nonempty_results"])
			}
			return nil, ""
		},
	})
}
