// c09: rule{} match/ignore blocks select rules by their documented boolean meaning. DESIGN.md §2 C09.
package main

import (
	"context"
	"fmt"
	"os"
	"regexp"
	"strings"
	"time"

	"github.com/prometheus/common/model"

	"github.com/cloudflare/pint/internal/config"
	"github.com/cloudflare/pint/internal/discovery"
	"github.com/cloudflare/pint/internal/parser"
	"github.com/cloudflare/pint/verifharness/explore"
	"github.com/cloudflare/pint/verifharness/lib/pipeline"
)

// ---- rule universe ----

type urule struct {
	entry  discovery.Entry
	kind   string
	name   string
	path   string
	labels map[string]string // merged view: group-level, overridden by rule-level
	anns   map[string]string
	hasFor bool
	forD   time.Duration
	hasKFF bool
	kffD   time.Duration
}

var universe []urule

func buildFile(path string) string {
	var sb strings.Builder
	sb.WriteString("groups:\n")
	groups := []string{"", "y"}
	type av struct{ ann, fr, kf string }
	alerts := []av{{"", "", ""}, {"x", "1m", ""}, {"y", "5m", ""}, {"", "5m", "5m"}}
	if tier == "thorough" {
		groups = []string{"", "x", "y"}
		alerts = nil
		for _, ann := range []string{"", "x", "y"} {
			for _, fr := range []string{"", "1m", "5m"} {
				alerts = append(alerts, av{ann, fr, ""})
			}
		}
		alerts = append(alerts, av{"", "5m", "5m"}, av{"x", "", "5m"})
	}
	for gi, glabel := range groups {
		fmt.Fprintf(&sb, "- name: g%d\n", gi)
		if glabel != "" {
			fmt.Fprintf(&sb, "  labels:\n    team: %s\n", glabel)
		}
		sb.WriteString("  rules:\n")
		for _, name := range []string{"aaa", "bbb"} {
			// rules that override the group label come first: a later rule must still see the group's value
			for _, rlabel := range []string{"x", ""} {
				fmt.Fprintf(&sb, "  - record: %s\n    expr: up\n", name)
				if rlabel != "" {
					fmt.Fprintf(&sb, "    labels:\n      team: %s\n", rlabel)
				}
				for _, a := range alerts {
					fmt.Fprintf(&sb, "  - alert: %s\n    expr: up == 0\n", name)
					if a.fr != "" {
						fmt.Fprintf(&sb, "    for: %s\n", a.fr)
					}
					if a.kf != "" {
						fmt.Fprintf(&sb, "    keep_firing_for: %s\n", a.kf)
					}
					if rlabel != "" {
						fmt.Fprintf(&sb, "    labels:\n      team: %s\n", rlabel)
					}
					if a.ann != "" {
						fmt.Fprintf(&sb, "    annotations:\n      summary: %s\n", a.ann)
					}
				}
			}
		}
	}
	return sb.String()
}

// anchoring space (after seed C09_5): values and patterns with regexp metacharacters at their ends, so that a
// condition that is not anchored on both sides (or anchored by a textual shortcut) selects a different set of rules
var anchorMode bool

func buildAnchorFile() string {
	var sb strings.Builder
	sb.WriteString("groups:\n- name: g\n  rules:\n")
	for _, v := range []string{"cost$extra", "cost$", "xcost$", "cost", "^cost"} {
		fmt.Fprintf(&sb, "  - alert: %s\n    expr: up == 0\n    labels:\n      unit: %s\n    annotations:\n      summary: %s\n", v, v, v)
	}
	return sb.String()
}

func setupAnchoring(t string) {
	tier = t
	anchorMode = true
	alphabet = nil
	for _, p := range []string{`rules/a\$`, `rules/a\$.*`, `^rules/a`, `.*\$`, `rules/a\$b\.yml`, `rules/a.b\.yml$`} {
		alphabet = append(alphabet, cond{kind: "path", a: p})
	}
	pats := []string{`cost\$`, `cost\$.*`, `^cost\$$`, `^cost`, `cost$`, `.*cost\$`, `(cost\$|zzz)`, `cost\$$`, `^cost\$`, `[a-z]+\$`, `\^cost`, `cost\$|cost`}
	for _, p := range pats {
		alphabet = append(alphabet, cond{kind: "name", a: p})
	}
	for _, p := range pats {
		alphabet = append(alphabet, cond{kind: "label", a: "unit", b: p})
	}
	for _, p := range pats {
		alphabet = append(alphabet, cond{kind: "annotation", a: "summary", b: p})
	}
	alphabet = append(alphabet, cond{kind: "label", a: `uni`, b: ".*"}, cond{kind: "label", a: `^unit`, b: ".*"}, cond{kind: "label", a: `unit$`, b: `.*\$`})
	setup(t)
}

// setupBlocks is the Setup of the spaces over the base alphabet.
func setupBlocks(t string) {
	tier = t
	anchorMode = false
	alphabet = baseAlphabet
	setup(t)
}

// setup rebuilds the rule universe from nothing, so that a space sees the same universe whatever the worker
// process ran before (a fresh worker, a replay, or a worker that went through the earlier spaces). The anchoring
// space works on the base universe plus the rules with metacharacters in their values: that is the set of
// distinct rules it has always been run on (the universe used to be appended to by every Setup, so a worker that
// had been through the earlier spaces carried each base rule twice and a fresh one carried none).
func setup(string) {
	universe = nil
	type src struct{ path, text string }
	var srcs []src
	for _, path := range []string{"rules/a.yml", "other/b.yml"} {
		srcs = append(srcs, src{path, buildFile(path)})
	}
	if anchorMode {
		for _, path := range []string{"rules/a$b.yml", "rules/a$", "xrules/a$b.yml"} {
			srcs = append(srcs, src{path, buildAnchorFile()})
		}
	}
	for _, sr := range srcs {
		path, text := sr.path, sr.text
		entries, crash := pipeline.Parse(path, []byte(text), true, parser.PrometheusSchema, model.UTF8Validation)
		if crash != nil {
			panic(crash.Value)
		}
		for _, e := range entries {
			if e.PathError != nil || e.Rule.Error.Err != nil {
				panic(fmt.Sprintf("universe does not parse: %v %v", e.PathError, e.Rule.Error.Err))
			}
			u := urule{entry: e, path: path, name: e.Rule.Name(), labels: map[string]string{}, anns: map[string]string{}}
			// the reference reads the YAML it generated through the parsed structures' plain values only
			if e.Group != nil && e.Group.Labels != nil {
				for _, kv := range e.Group.Labels.Items {
					u.labels[kv.Key.Value] = kv.Value.Value
				}
			}
			var rl *parser.YamlMap
			if e.Rule.AlertingRule != nil {
				u.kind = "alerting"
				rl = e.Rule.AlertingRule.Labels
				if a := e.Rule.AlertingRule.Annotations; a != nil {
					for _, kv := range a.Items {
						u.anns[kv.Key.Value] = kv.Value.Value
					}
				}
				if f := e.Rule.AlertingRule.For; f != nil {
					d, _ := model.ParseDuration(f.Value)
					u.hasFor, u.forD = true, time.Duration(d)
				}
				if f := e.Rule.AlertingRule.KeepFiringFor; f != nil {
					d, _ := model.ParseDuration(f.Value)
					u.hasKFF, u.kffD = true, time.Duration(d)
				}
			} else {
				u.kind = "recording"
				rl = e.Rule.RecordingRule.Labels
			}
			if rl != nil {
				for _, kv := range rl.Items {
					u.labels[kv.Key.Value] = kv.Value.Value
				}
			}
			universe = append(universe, u)
		}
	}
}

// ---- conditions ----

type cond struct {
	kind string // path name kind label annotation for keep_firing_for command state
	a, b string
	list []string
}

func (c cond) hcl(ind string) string {
	switch c.kind {
	case "label", "annotation":
		return fmt.Sprintf("%s%s %q {\n%s  value = %q\n%s}\n", ind, c.kind, c.a, ind, c.b, ind)
	case "state":
		return fmt.Sprintf("%sstate = [%s]\n", ind, `"`+strings.Join(c.list, `", "`)+`"`)
	default:
		return fmt.Sprintf("%s%s = %q\n", ind, c.kind, c.a)
	}
}

var alphabet = baseAlphabet

var baseAlphabet = []cond{
	{kind: "path", a: `rules/a\.yml`}, {kind: "path", a: `rules/.*`}, {kind: "path", a: `a\.yml`}, {kind: "path", a: `.*b.*`},
	{kind: "name", a: "aaa"}, {kind: "name", a: "a"}, {kind: "name", a: "a.*"}, {kind: "name", a: "(aaa|bbb)"},
	{kind: "kind", a: "alerting"}, {kind: "kind", a: "recording"},
	{kind: "label", a: "team", b: "x"}, {kind: "label", a: "te.*", b: ".*"}, {kind: "label", a: "team", b: "y"}, {kind: "label", a: "tea", b: "x"},
	{kind: "annotation", a: "summary", b: "x"}, {kind: "annotation", a: "summary", b: ".*"}, {kind: "annotation", a: "sum", b: "x"},
	{kind: "for", a: "> 1m"}, {kind: "for", a: ">= 5m"}, {kind: "for", a: "= 1m"}, {kind: "for", a: "!= 5m"}, {kind: "for", a: "< 5m"}, {kind: "for", a: "<= 1m"}, {kind: "for", a: "5m"},
	{kind: "keep_firing_for", a: "> 1m"}, {kind: "keep_firing_for", a: "< 5m"},
	{kind: "command", a: "ci"}, {kind: "command", a: "lint"}, {kind: "command", a: "watch"},
	{kind: "state", list: []string{"any"}}, {kind: "state", list: []string{"unmodified"}}, {kind: "state", list: []string{"added"}}, {kind: "state", list: []string{"modified"}},
	{kind: "state", list: []string{"renamed"}}, {kind: "state", list: []string{"added", "modified"}}, {kind: "state", list: []string{"removed"}},
}

var states = []discovery.ChangeType{discovery.Noop, discovery.Added, discovery.Modified, discovery.Moved}
var stateName = map[discovery.ChangeType]string{discovery.Noop: "unmodified", discovery.Added: "added", discovery.Modified: "modified", discovery.Moved: "renamed", discovery.Removed: "removed"}
var commands = []config.ContextCommandVal{config.LintCommand, config.CICommand, config.WatchCommand}

func anchored(re, s string) bool { return regexp.MustCompile("^(?:" + re + ")$").MatchString(s) }

func durCmp(expr string, d time.Duration) bool {
	op, val := "=", expr
	if i := strings.IndexByte(expr, ' '); i >= 0 {
		op, val = expr[:i], expr[i+1:]
	}
	md, _ := model.ParseDuration(val)
	ref := time.Duration(md)
	switch op {
	case "<":
		return d < ref
	case "<=":
		return d <= ref
	case "=":
		return d == ref
	case "!=":
		return d != ref
	case ">=":
		return d >= ref
	case ">":
		return d > ref
	}
	return false
}

// the documented meaning of one condition
func (c cond) holds(u urule, st discovery.ChangeType, cmd config.ContextCommandVal) bool {
	switch c.kind {
	case "path":
		return anchored(c.a, u.path)
	case "name":
		return anchored(c.a, u.name)
	case "kind":
		return c.a == u.kind
	case "label":
		for k, v := range u.labels {
			if anchored(c.a, k) && anchored(c.b, v) {
				return true
			}
		}
		return false
	case "annotation":
		for k, v := range u.anns {
			if anchored(c.a, k) && anchored(c.b, v) {
				return true
			}
		}
		return false
	case "for":
		return u.hasFor && durCmp(c.a, u.forD)
	case "keep_firing_for":
		return u.hasKFF && durCmp(c.a, u.kffD)
	case "command":
		return c.a == string(cmd)
	case "state":
		for _, s := range c.list {
			if s == "any" || s == stateName[st] {
				return true
			}
		}
		return false
	}
	return false
}

type sub struct{ conds []cond }

func (s sub) hasKind(k string) bool {
	for _, c := range s.conds {
		if c.kind == k {
			return true
		}
	}
	return false
}

func (s sub) all(u urule, st discovery.ChangeType, cmd config.ContextCommandVal, defaultState bool) bool {
	for _, c := range s.conds {
		if !c.holds(u, st, cmd) {
			return false
		}
	}
	if defaultState && !s.hasKind("state") {
		// documented default: under `ci` only changed rules, otherwise any state
		if cmd == config.CICommand && st == discovery.Noop {
			return false
		}
	}
	return true
}

func reference(matches, ignores []sub, u urule, st discovery.ChangeType, cmd config.ContextCommandVal) bool {
	for _, ig := range ignores {
		if ig.all(u, st, cmd, false) {
			return false
		}
	}
	if len(matches) == 0 {
		return sub{}.all(u, st, cmd, true)
	}
	for _, m := range matches {
		if m.all(u, st, cmd, true) {
			return true
		}
	}
	return false
}

func genSub(c *explore.Chooser, tag string, maxConds int) (sub, bool) {
	var s sub
	used := map[string]bool{}
	for i := 0; i < maxConds; i++ {
		k := c.Free(len(alphabet)+1, fmt.Sprintf("%s.c%d", tag, i))
		if k == 0 {
			break
		}
		cd := alphabet[k-1]
		if used[cd.kind] {
			return s, false // one condition per kind in a sub-block (HCL attributes are unique)
		}
		// canonical order to avoid enumerating permutations
		if len(s.conds) > 0 && k-1 < indexOf(s.conds[len(s.conds)-1]) {
			return s, false
		}
		used[cd.kind] = true
		s.conds = append(s.conds, cd)
	}
	return s, true
}

func indexOf(c cond) int {
	for i, a := range alphabet {
		if a.kind == c.kind && a.a == c.a && a.b == c.b && fmt.Sprint(a.list) == fmt.Sprint(c.list) {
			return i
		}
	}
	return -1
}

var shapes = []string{"m", "i", "mm", "mi", "ii", "none", "mmi"}

func body(c *explore.Chooser) *explore.Case {
	nshapes := len(shapes) - 1 // the mmi triple (36^3 blocks) is not part of any tier: it could only ever be sampled
	shape := shapes[c.Free(nshapes, "shape")]
	single := len(shape) == 1
	maxConds := 1
	if single {
		maxConds = 2
	}
	if tier == "thorough" && single && !anchorMode { // the anchoring space is the same complete space in both tiers
		maxConds = 3 // pairs stay at one condition each: two each would be 1.3 M blocks, a time-capped sample
	}
	var matches, ignores []sub
	var hcl strings.Builder
	hcl.WriteString("rule {\n")
	if shape != "none" {
		for i, ch := range shape {
			s, ok := genSub(c, fmt.Sprintf("s%d", i), maxConds)
			if !ok {
				return &explore.Case{Skip: true}
			}
			if ch == 'i' && len(s.conds) == 1 && s.conds[0].kind == "keep_firing_for" {
				return &explore.Case{Skip: true} // validate() does not count keep_firing_for as a condition of an ignore block
			}
			if ch == 'i' && len(s.conds) == 0 {
				return &explore.Case{Skip: true} // rejected at load time: ignore block needs a condition
			}
			if ch == 'm' {
				matches = append(matches, s)
				hcl.WriteString("  match {\n")
			} else {
				ignores = append(ignores, s)
				hcl.WriteString("  ignore {\n")
			}
			for _, cd := range s.conds {
				hcl.WriteString(cd.hcl("    "))
			}
			hcl.WriteString("  }\n")
		}
	}
	hcl.WriteString("  label \"m_0\" {\n    required = true\n    comment  = \"block-0\"\n    severity = \"info\"\n  }\n}\n")
	cfgText := hcl.String()
	cs := &explore.Case{Input: map[string]any{"config": cfgText}, Key: cfgText}
	cfg, err := pipeline.LoadConfig(cfgText)
	if err != nil {
		cs.Violate("harness:config-rejected", "generated config was rejected: "+err.Error(), cfgText)
		return cs
	}
	gen := pipeline.Generator(cfg)
	applied, total := 0, 0
	for _, cmd := range commands {
		ctx := context.WithValue(context.Background(), config.CommandKey, cmd)
		for _, st := range states {
			for ui := range universe {
				u := universe[ui]
				e := u.entry
				e.State = st
				got := false
				for _, chk := range cfg.GetChecksForEntry(ctx, gen, e) {
					if strings.Contains(chk.String(), "m_0") {
						got = true
					}
				}
				want := reference(matches, ignores, u, st, cmd)
				total++
				if got {
					applied++
				}
				if got != want && os.Getenv("VERIF_DEBUG") != "" {
					fmt.Fprintf(os.Stderr, "DEBUG group=%q grouplabels=%v lines=%v pintLabels=", e.Group.Name, e.Group.Labels != nil, e.Rule.Lines)
					for _, kv := range e.Labels().Items {
						fmt.Fprintf(os.Stderr, "%s=%s ", kv.Key.Value, kv.Value.Value)
					}
					fmt.Fprintln(os.Stderr)
				}
				if got != want {
					cs.Violate(fmt.Sprintf("selection differs shape=%s kinds=%s want=%v", shape, kindsOf(matches, ignores), want),
						fmt.Sprintf("block applied=%v, documented meaning says %v, for %s rule %q in %s (labels %v, annotations %v, for=%v/%s, keep_firing_for=%v/%s) state=%s command=%s",
							got, want, u.kind, u.name, u.path, u.labels, u.anns, u.hasFor, u.forD, u.hasKFF, u.kffD, stateName[st], cmd), map[string]any{"config": cfgText})
					cs.Outcome = "mismatch"
					return cs
				}
			}
		}
	}
	cs.Count("selection_decisions", int64(total))
	switch {
	case applied == 0:
		cs.Outcome = "selects-nothing"
	case applied == total:
		cs.Outcome = "selects-everything"
	default:
		cs.Outcome = "selects-some"
	}
	return cs
}

// twoBlocks: two rule{} blocks without match/ignore, each carrying a check of the same kind with different
// parameters. Both blocks apply to every rule, so both checks must be in the result.
var twoKinds = []struct{ name, reporter, a, b string }{
	{"label", "rule/label", `label "m_0" {
    required = true
  }`, `label "m_1" {
    required = true
  }`},
	{"annotation", "alerts/annotation", `annotation "m_0" {
    required = true
  }`, `annotation "m_1" {
    required = true
  }`},
	{"report", "rule/report", `report {
    comment  = "first block"
    severity = "info"
  }`, `report {
    comment  = "second block"
    severity = "warning"
  }`},
	{"name", "rule/name", `name "a.*" {
  }`, `name "b.*" {
  }`},
	{"for", "rule/for", `for {
    min = "1m"
  }`, `for {
    min = "2m"
  }`},
	{"keep_firing_for", "rule/for", `keep_firing_for {
    max = "1h"
  }`, `keep_firing_for {
    max = "2h"
  }`},
	{"aggregate", "promql/aggregate", `aggregate ".+" {
    keep = ["job"]
  }`, `aggregate ".+" {
    keep = ["instance"]
  }`},
	{"reject", "rule/reject", `reject "bad.*" {
    label_values = true
  }`, `reject "worse.*" {
    label_values = true
  }`},
	{"link", "rule/link", `link "https://a/.+" {
  }`, `link "https://b/.+" {
  }`},
	{"range_query", "promql/range_query", `range_query {
    max = "1h"
  }`, `range_query {
    max = "2h"
  }`},
}

func twoBlocks(c *explore.Chooser) *explore.Case {
	k := twoKinds[c.Free(len(twoKinds), "kind")]
	order := c.Free(2, "order")
	a, b := k.a, k.b
	if order == 1 {
		a, b = b, a
	}
	cfgText := "rule {\n  " + a + "\n}\nrule {\n  " + b + "\n}\n"
	cs := &explore.Case{Input: map[string]any{"config": cfgText}, Key: cfgText, Outcome: "two-blocks"}
	cfg, err := pipeline.LoadConfig(cfgText)
	if err != nil {
		cs.Violate("harness:config-rejected", "generated config was rejected: "+err.Error(), cfgText)
		return cs
	}
	gen := pipeline.Generator(cfg)
	ctx := context.WithValue(context.Background(), config.CommandKey, config.LintCommand)
	for ui := range universe {
		u := universe[ui]
		if u.kind != "alerting" {
			continue
		}
		e := u.entry
		e.State = states[0]
		n := 0
		var names []string
		for _, chk := range cfg.GetChecksForEntry(ctx, gen, e) {
			if chk.Reporter() == k.reporter {
				n++
				names = append(names, chk.String())
			}
		}
		if n != 2 {
			cs.Violate("two-blocks: a block's check is not applied kind="+k.name, fmt.Sprintf("both rule{} blocks apply to alert %q but only these %s checks are selected: %v", u.name, k.reporter, names), map[string]any{"config": cfgText})
		}
		break
	}
	return cs
}

func kindsOf(m, i []sub) string {
	var ks []string
	for _, s := range m {
		for _, c := range s.conds {
			ks = append(ks, "m:"+c.kind)
		}
	}
	for _, s := range i {
		for _, c := range s.conds {
			ks = append(ks, "i:"+c.kind)
		}
	}
	return strings.Join(ks, ",")
}

var tier string

func main() {
	explore.Main(&explore.Config{
		Property: "C09", Level: "exploration",
		Rule:        "space anchoring: the same block shapes over 45 path/name/label/annotation conditions whose patterns end or start in escaped or bare regexp metacharacters (cost\\$, ^cost, cost$, cost\\$|cost, ...) applied to rules, labels, annotations and paths such as cost$extra, cost$, xcost$, ^cost, rules/a$b.yml: a condition means the fully anchored regexp; space blocks: rule{} blocks of shape {none, m, i, mm, mi, ii} whose sub-blocks are conjunctions of <=c conditions (quick: c=2 for single sub-blocks, 1 in pairs; thorough: 3 for single sub-blocks, on the larger rule universe; both complete) over a 36-condition alphabet covering all nine kinds (anchoring probes, group-level labels, 7 duration operators, 3 commands, 7 state lists), loaded through the real config.Load, applied through GetChecksForEntry to a rule universe (80 rules quick / 276 thorough: kinds x names x group-level/rule-level/overriding labels x annotations x for x keep_firing_for x 2 paths) x 4 change states x 3 commands, compared with a reference evaluator of the documented meaning. distinct = distinct config text; space two-blocks: two unconditional rule{} blocks carrying the same kind of check with different parameters (10 kinds x 2 orders): both checks must be selected",
		Assumptions: []string{"a block 'is applied' when its marker check is in GetChecksForEntry's result", "removed rules are outside (no configurable check runs on them)"},
		Spaces: []*explore.Space{
			{Name: "blocks", Body: body, Setup: setupBlocks, Bound: func(string) int { return -1 }},
			{Name: "two-blocks", Body: twoBlocks, Setup: setupBlocks, Bound: func(string) int { return -1 }},
			{Name: "anchoring", Body: body, Setup: setupAnchoring, Bound: func(string) int { return -1 }},
		},
		BudgetS: func(t string) int {
			if t == "thorough" {
				return 1800
			}
			return 900
		},
		Finish: func(t string, agg *explore.Aggregate) ([]explore.Violation, string) {
			if agg.Outcomes["selects-some"] < 100 {
				return nil, "vacuity guard: too few blocks select a proper subset of the universe"
			}
			return nil, ""
		},
	})
}
