// c05: exit status is non-zero exactly when a problem reaches the fail-on severity.
// Exhaustive product space, real pint binary, one process per run (see DESIGN.md §2 C05).
package main

import (
	"fmt"
	"os"
	"path/filepath"
	"sort"
	"strings"

	"github.com/cloudflare/pint/verifharness/explore"
	"github.com/cloudflare/pint/verifharness/lib/gitrepo"
	"github.com/cloudflare/pint/verifharness/lib/pintbin"
)

var sevNames = []string{"info", "warning", "bug", "fatal"}
var sevJSON = map[string]int{"Information": 0, "Warning": 1, "Bug": 2, "Fatal": 3}

// palette entry -> severity rank
type pal struct {
	name  string
	sev   int
	extra int // a second problem of this severity on the same rule with the same text (-1 = none)
}

// D: one rule that draws the same report twice, as a Warning and as a Bug (two rule{} blocks)
var palette = []pal{{"I", 0, -1}, {"W", 1, -1}, {"B", 2, -1}, {"F", 3, -1}, {"Y", 3, -1}, {"D", 2, 1}}

const config = `
rule {
  match { name = "sev_info_.*" }
  report {
    comment  = "marker"
    severity = "info"
  }
}
rule {
  match { name = "sev_warning_.*" }
  report {
    comment  = "marker"
    severity = "warning"
  }
}
rule {
  match { name = "sev_bug_.*" }
  report {
    comment  = "marker"
    severity = "bug"
  }
}
rule {
  match { name = "sev_dual_.*" }
  label "team" {
    required = true
    severity = "warning"
  }
}
rule {
  match { name = "sev_dual_.*" }
  label "team" {
    value    = "(a|b)"
    required = true
    severity = "bug"
  }
}
`

func buildFiles(ms []int) map[string]string {
	files := map[string]string{}
	var b strings.Builder
	b.WriteString("groups:\n- name: g\n  rules:\n  - record: clean\n    expr: vector(1)\n")
	ny := 0
	for i, m := range ms {
		switch palette[m].name {
		case "I":
			fmt.Fprintf(&b, "  - record: sev_info_%d\n    expr: vector(1)\n", i)
		case "W":
			fmt.Fprintf(&b, "  - record: sev_warning_%d\n    expr: vector(1)\n", i)
		case "B":
			fmt.Fprintf(&b, "  - record: sev_bug_%d\n    expr: vector(1)\n", i)
		case "D":
			fmt.Fprintf(&b, "  - record: sev_dual_%d\n    expr: vector(1)\n", i)
		case "F":
			fmt.Fprintf(&b, "  - record: sev_fatal_%d\n    expr: vector(1\n", i)
		case "Y":
			ny++
			files[fmt.Sprintf("rules/bad%d.yml", ny)] = "groups:\n- name: g\n  rules:\n  - record: x\n    expr: [\n"
		}
	}
	files["rules/rules.yml"] = b.String()
	return files
}

// all multisets of size <= 3 over the palette, as sorted index lists
func multisets() [][]int {
	out := [][]int{{}}
	n := len(palette)
	for a := 0; a < n; a++ {
		out = append(out, []int{a})
		for b := a; b < n; b++ {
			out = append(out, []int{a, b})
			for c := b; c < n; c++ {
				out = append(out, []int{a, b, c})
			}
		}
	}
	return out
}

var msets = multisets()

func body(isCI bool) explore.Body {
	return func(c *explore.Chooser) *explore.Case {
		ms := msets[c.Free(len(msets), "multiset")]
		failOn := c.Free(5, "fail-on") // 0 = unset, 1..4 = info..fatal
		minSev := 0
		if !isCI {
			minSev = c.Free(5, "min-severity")
		}
		showDups := c.Free(2, "show-duplicates") == 1
		teamcity := c.Free(2, "teamcity") == 1
		// ci only: the branch also deletes a whole rule file whose recording rule a remaining rule still uses - a
		// Warning (rule/dependency) that points at a file which no longer exists
		deletesProvider := isCI && c.Free(2, "branch-deletes-a-used-provider-file") == 1
		checkstyle := !isCI && c.Free(2, "checkstyle") == 1

		dir := pintbin.Scratch("c05")
		defer os.RemoveAll(dir)
		files := buildFiles(ms)
		var args []string
		args = append(args, "-c", ".pint.hcl", "-w", "2")
		if showDups {
			args = append(args, "--show-duplicates")
		}
		if isCI {
			r := gitrepo.Init(dir)
			r.Write(".pint.hcl", config+"\nci {\n  baseBranch = \"main\"\n}\n")
			r.Write("rules/keep.yml", "groups:\n- name: k\n  rules:\n  - record: keep\n    expr: vector(1)\n")
			if deletesProvider {
				r.Write("rules/provider.yml", "groups:\n- name: p\n  rules:\n  - record: provided:metric\n    expr: vector(1)\n")
				r.Write("rules/keep.yml", "groups:\n- name: k\n  rules:\n  - record: keep\n    expr: sum(provided:metric)\n")
			}
			r.Commit("base")
			r.Checkout("feature", true)
			if deletesProvider {
				r.Remove("rules/provider.yml")
			}
			for n, body := range files {
				r.Write(n, body)
			}
			r.Commit("add rules")
			args = append(args, "ci")
		} else {
			os.WriteFile(filepath.Join(dir, ".pint.hcl"), []byte(config), 0o644)
			os.MkdirAll(filepath.Join(dir, "rules"), 0o755)
			for n, body := range files {
				os.WriteFile(filepath.Join(dir, n), []byte(body), 0o644)
			}
			args = append(args, "lint")
			if minSev > 0 {
				args = append(args, "--min-severity", sevNames[minSev-1])
			}
		}
		if failOn > 0 {
			args = append(args, "--fail-on", sevNames[failOn-1])
		}
		if teamcity {
			args = append(args, "--teamcity")
		}
		if checkstyle {
			args = append(args, "--checkstyle", "cs.xml")
		}
		args = append(args, "--json", "out.json")
		if !isCI {
			args = append(args, "rules")
		}
		res := pintbin.Run(dir, "out.json", nil, args...)

		var names []string
		maxSev := -1
		var want []int
		for _, m := range ms {
			names = append(names, palette[m].name)
			want = append(want, palette[m].sev)
			if palette[m].extra >= 0 {
				want = append(want, palette[m].extra)
			}
			if palette[m].sev > maxSev {
				maxSev = palette[m].sev
			}
		}
		if deletesProvider {
			names = append(names, "+D")
			want = append(want, 1)
			if maxSev < 1 {
				maxSev = 1
			}
		}
		sort.Ints(want)
		threshold := 2
		if failOn > 0 {
			threshold = failOn - 1
		}
		input := map[string]any{"multiset": strings.Join(names, ""), "args": strings.Join(args, " "), "ci": isCI}
		cs := &explore.Case{Input: input, Trivial: len(ms) == 0 && !deletesProvider}
		wantFail := maxSev >= threshold
		cs.Outcome = fmt.Sprintf("exit=%d wantFail=%v", res.Exit, wantFail)
		cls := fmt.Sprintf("cmd=%v failon=%d minsev=%d dups=%v tc=%v", isCI, failOn, minSev, showDups, teamcity)

		if res.Panicked {
			cs.Violate("panic", "pint crashed", res.Stderr)
			return cs
		}
		problemsErr := strings.Contains(res.ErrLine, "problem(s) with severity") || strings.Contains(res.ErrLine, "problems found")
		if res.Exit != 0 && !problemsErr && strings.Contains(res.ErrLine, "submitting reports") {
			cs.Violate(fmt.Sprintf("exit-nonzero-because-a-reporter-failed ci=%v", isCI), "linting completed but the run failed while writing its report: "+res.ErrLine, map[string]any{"class": cls, "stderr": res.Stderr})
			return cs
		}
		if res.Exit != 0 && !problemsErr {
			// linting did not complete: outside the property; the space must not produce this
			cs.Count("run_did_not_complete", 1)
			cs.Violate("harness:incomplete-run", "pint failed for a reason other than problems found: "+res.ErrLine, res.Stderr)
			return cs
		}
		if !res.HasJSON {
			cs.Violate("harness:nojson", "no JSON report", res.Stderr)
			return cs
		}
		var got []int
		gotMax := -1
		for _, r := range res.Reports {
			s, ok := sevJSON[r.Severity]
			if !ok {
				cs.Violate("harness:severity", "unknown severity "+r.Severity, nil)
				return cs
			}
			got = append(got, s)
			if s > gotMax {
				gotMax = s
			}
		}
		sort.Ints(got)
		failed := res.Exit != 0
		// (1) the property as stated on the run's own report
		if failed != (gotMax >= threshold) {
			cs.Violate(fmt.Sprintf("exit-vs-own-report failed=%v maxsev=%d threshold=%d ci=%v", failed, gotMax, threshold, isCI),
				"exit status disagrees with the severities in the run's own JSON report", map[string]any{"class": cls, "stderr": res.Stderr})
		}
		// (2) against what the generator put in: flags that only affect display must not change the
		// reported problems or the status
		if fmt.Sprint(got) != fmt.Sprint(want) {
			cs.Violate(fmt.Sprintf("reports-differ ci=%v minsev=%d dups=%v tc=%v", isCI, minSev, showDups, teamcity),
				fmt.Sprintf("reported severities %v, generator expects %v", got, want), map[string]any{"class": cls, "stderr": res.Stderr})
		} else if failed != wantFail {
			cs.Violate(fmt.Sprintf("exit-vs-expected failed=%v ci=%v", failed, isCI), "exit status disagrees with the expected verdict", map[string]any{"class": cls})
		}
		return cs
	}
}

func main() {
	unb := func(string) int { return -1 }
	explore.Main(&explore.Config{
		Property: "C05", Level: "exploration",
		Rule: "complete product: severity multisets of size<=3 over {info,warning,bug,fatal(promql syntax),fatal(yaml),one rule reported twice with the same text as warning and bug} x --fail-on{unset,info,warning,bug,fatal} x --min-severity (lint) x --show-duplicates x --teamcity x --checkstyle (lint) x {lint, ci on a one-commit branch, ci on a branch that also deletes a rule file another rule depends on}; each case is one run of the real pint binary; non-trivial = non-empty multiset; distinct = distinct choice vector",
		Assumptions: []string{
			"severity of a palette rule is fixed by construction (rule{report{severity}} blocks, PromQL syntax error, YAML error)",
			"runs that fail for reasons other than 'problems found' are outside the property and are harness errors in this space",
		},
		Spaces: []*explore.Space{
			{Name: "lint", Body: body(false), Bound: unb},
			{Name: "ci", Body: body(true), Bound: unb},
		},
		BudgetS: func(t string) int { return 600 },
	})
}
