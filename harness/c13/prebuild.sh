#!/bin/bash
# Rewrites the promapi files that contain the synchronisation under test (from the CURRENT tree) and prints the
# overlay replacements, one argument per line. A construct the rewriter cannot translate is a build failure.
set -eu
B="$1"
"$VERIF_DIR/scripts/build.sh" rewrite >/dev/null
RW="$VERIF_DIR/.build/rewrite/bin/rewrite"
mkdir -p "$B/rw"
for f in keylock cache prometheus query range config flags metadata; do
  "$RW" -skip Describe,Collect -o "$B/rw/$f.go" "$VERIF_REPO/internal/promapi/$f.go" 1>&2
  echo "--replace"
  echo "internal/promapi/$f.go=$B/rw/$f.go"
done
