// c13: slicing a range query is invisible in its result. DESIGN.md §2 C13 (a): values.
package main

import (
	"context"
	"fmt"
	"io"
	"net/http"
	"net/url"
	"sort"
	"strconv"
	"strings"
	"sync"
	"time"

	"github.com/prometheus/prometheus/model/labels"

	"github.com/cloudflare/pint/internal/promapi"
	"github.com/cloudflare/pint/verifharness/explore"
	"github.com/cloudflare/pint/verifharness/rt"
)

var epoch = time.Date(2024, 3, 10, 0, 0, 0, 0, time.UTC)

type window struct {
	start, end time.Time
	step       time.Duration
}

func (w window) Start() time.Time    { return w.start }
func (w window) End() time.Time      { return w.end }
func (w window) Dur() time.Duration  { return w.end.Sub(w.start) }
func (w window) Step() time.Duration { return w.step }
func (w window) String() string      { return fmt.Sprintf("%s/%s", w.end.Sub(w.start), w.step) }

type request struct {
	start, end time.Time
	step       time.Duration
}

// fake Prometheus: a series is present at instant t iff present[series](t)
type fakeProm struct {
	mu       sync.Mutex
	requests []request
	series   []string
	present  func(series int, t time.Time) bool
	failAt   int // index (arrival order) of the request that fails with a 503, -1 = none
	arrivals int
}

func (f *fakeProm) RoundTrip(req *http.Request) (*http.Response, error) {
	body, _ := io.ReadAll(req.Body)
	vals, _ := url.ParseQuery(string(body))
	parseT := func(s string) time.Time {
		fl, _ := strconv.ParseFloat(s, 64)
		sec := int64(fl)
		return time.Unix(sec, int64((fl-float64(sec))*1e9)).UTC()
	}
	stepF, _ := strconv.ParseFloat(vals.Get("step"), 64)
	r := request{parseT(vals.Get("start")), parseT(vals.Get("end")), time.Duration(stepF * float64(time.Second))}
	f.mu.Lock()
	f.requests = append(f.requests, r)
	mine := f.arrivals
	f.arrivals++
	f.mu.Unlock()
	rt.Yield("http.arrive")
	rt.Yield("http.respond")
	if err := req.Context().Err(); err != nil {
		return nil, err
	}
	if mine == f.failAt {
		return &http.Response{StatusCode: 503, Status: "503", Header: http.Header{"Content-Type": []string{"application/json"}}, Body: io.NopCloser(strings.NewReader(`{"status":"error","errorType":"server_error","error":"overloaded"}`)), Request: req}, nil
	}
	var sb strings.Builder
	sb.WriteString(`{"status":"success","data":{"resultType":"matrix","result":[`)
	first := true
	for si, name := range f.series {
		var pts []string
		for t := r.start; !t.After(r.end); t = t.Add(r.step) {
			if f.present(si, t) {
				pts = append(pts, fmt.Sprintf(`[%d,"1"]`, t.Unix()))
			}
		}
		if len(pts) == 0 {
			continue
		}
		if !first {
			sb.WriteString(",")
		}
		first = false
		fmt.Fprintf(&sb, `{"metric":{"__name__":"m","s":%q},"values":[%s]}`, name, strings.Join(pts, ","))
	}
	sb.WriteString(`]}}`)
	return &http.Response{StatusCode: 200, Status: "200 OK", Header: http.Header{"Content-Type": []string{"application/json"}}, Body: io.NopCloser(strings.NewReader(sb.String())), Request: req}, nil
}

var steps = []time.Duration{time.Minute, 5 * time.Minute, 7 * time.Minute, 11 * time.Minute, 30 * time.Minute, time.Hour}

func body(c *explore.Chooser) *explore.Case {
	step := steps[c.Free(len(steps), "step")]
	startOff := []time.Duration{0, time.Second, step - time.Second, time.Hour, 90*time.Minute + 13*time.Second}[c.Free(5, "start-offset")]
	length := []time.Duration{step, time.Hour, 2 * time.Hour, 2*time.Hour + step, 5 * time.Hour, 3*time.Hour + 17*time.Minute}[c.Free(6, "length")]
	w := window{start: epoch.Add(startOff), step: step}
	w.end = w.start.Add(length)
	conc := []int{1, 3, 2}[c.Free(ifThorough(3, 2), "concurrency")]
	nseries := 1 + c.Free(2, "series")

	// the grid pint will use is only known after the requests were logged; patterns are therefore chosen on
	// the global step grid anchored at the slice boundary grid (multiples of the slice size), which is what
	// sliceRange aligns to; the assertions below check that this is indeed the grid requested.
	sliceSize := (2 * time.Hour).Round(step)
	var t0 time.Time
	if sliceSize > length {
		t0 = w.start
	} else {
		t0 = w.start.Round(sliceSize)
		if t0.After(w.start) {
			t0 = t0.Add(-sliceSize)
		}
	}
	var grid []time.Time
	for t := t0; !t.After(w.end); t = t.Add(step) {
		grid = append(grid, t)
	}
	G := len(grid)
	// presence patterns as bitsets over grid points
	pat := make([][]bool, nseries)
	for s := 0; s < nseries; s++ {
		pat[s] = make([]bool, G)
		if G <= ifThorough(10, 7) && nseries == 1 || G <= ifThorough(5, 3) {
			for i := 0; i < G; i++ {
				pat[s][i] = c.Free(2, fmt.Sprintf("s%d.p%d", s, i)) == 1
			}
			continue
		}
		// interesting points: window edges, slice boundaries +-2, middle
		var cand []int
		add := func(i int) {
			if i >= 0 && i <= G {
				for _, x := range cand {
					if x == i {
						return
					}
				}
				cand = append(cand, i)
			}
		}
		add(0)
		add(1)
		add(G)
		add(G - 1)
		add(G / 2)
		for i, t := range grid {
			if t.Sub(t0)%sliceSize == 0 {
				for d := -2; d <= 2; d++ {
					add(i + d)
				}
			}
		}
		sort.Ints(cand)
		kind := c.Free(5, fmt.Sprintf("s%d.kind", s))
		if s == 1 && tier != "thorough" && kind != 0 && kind != 3 {
			return &explore.Case{Skip: true} // quick: the second series is either always there or misses one point
		}
		switch kind {
		case 0: // always present
			for i := range pat[s] {
				pat[s][i] = true
			}
		case 1: // one run [a,b)
			a := cand[c.Free(len(cand), fmt.Sprintf("s%d.a", s))]
			b := cand[c.Free(len(cand), fmt.Sprintf("s%d.b", s))]
			if a >= b {
				return &explore.Case{Skip: true}
			}
			for i := a; i < b && i < G; i++ {
				pat[s][i] = true
			}
		case 2: // everything except a gap [a,b)
			a := cand[c.Free(len(cand), fmt.Sprintf("s%d.a", s))]
			b := cand[c.Free(len(cand), fmt.Sprintf("s%d.b", s))]
			if a >= b {
				return &explore.Case{Skip: true}
			}
			for i := range pat[s] {
				pat[s][i] = i < a || i >= b
			}
		case 3: // single missing point
			a := cand[c.Free(len(cand), fmt.Sprintf("s%d.a", s))]
			if a >= G {
				return &explore.Case{Skip: true}
			}
			for i := range pat[s] {
				pat[s][i] = i != a
			}
		case 4: // single present point
			a := cand[c.Free(len(cand), fmt.Sprintf("s%d.a", s))]
			if a >= G {
				return &explore.Case{Skip: true}
			}
			pat[s][a] = true
		}
	}
	idx := func(t time.Time) int {
		d := t.Sub(t0)
		if d < 0 || d%step != 0 {
			return -1
		}
		i := int(d / step)
		if i >= G {
			return -1
		}
		return i
	}
	fp := &fakeProm{failAt: -1, series: []string{"a", "b"}[:nseries], present: func(s int, t time.Time) bool {
		i := idx(t)
		return i >= 0 && pat[s][i]
	}}
	prom := promapi.VerifNewPrometheus("p", "http://fake", conc, fp, nil)
	prom.StartWorkers()
	res, err := prom.RangeQuery(context.Background(), "m", w)
	prom.Close()

	patStr := func(p []bool) string {
		var sb strings.Builder
		for _, b := range p {
			if b {
				sb.WriteByte('#')
			} else {
				sb.WriteByte('.')
			}
		}
		return sb.String()
	}
	var pats []string
	for _, p := range pat {
		pats = append(pats, patStr(p))
	}
	input := map[string]any{"start": w.start.Format(time.RFC3339), "end": w.end.Format(time.RFC3339), "step": step.String(), "concurrency": conc, "presence_on_grid": pats, "grid_origin": t0.Format(time.RFC3339), "slice": sliceSize.String()}
	cs := &explore.Case{Input: input, Key: fmt.Sprint(input), Outcome: fmt.Sprintf("slices=%d", min(len(fp.requests), 4))}
	if err != nil {
		cs.Violate("range-query-error", "RangeQuery failed: "+err.Error(), input)
		return cs
	}
	// the slicing itself: every grid point requested exactly once, nothing off the grid, origin as predicted
	seen := map[int]int{}
	first := fp.requests[0].start
	for _, r := range fp.requests {
		if r.start.Before(first) {
			first = r.start
		}
		if r.step != step {
			cs.Violate("slice-step", fmt.Sprintf("slice requested with step %s instead of %s", r.step, step), input)
		}
		for t := r.start; !t.After(r.end); t = t.Add(step) {
			i := idx(t)
			if i < 0 {
				cs.Violate("slice-off-grid", fmt.Sprintf("slice [%s,%s] evaluates at %s which is not on the step grid of the other slices", r.start.Format(time.RFC3339), r.end.Format(time.RFC3339), t.Format(time.RFC3339)), input)
				break
			}
			seen[i]++
		}
	}
	if !first.Equal(t0) {
		cs.Violate("slice-origin", fmt.Sprintf("first slice starts at %s, expected %s", first, t0), input)
	}
	for i := 0; i < G; i++ {
		if grid[i].Before(w.start.Add(-sliceSize)) {
			continue
		}
		if seen[i] == 0 && !grid[i].Before(w.start) {
			cs.Violate("grid-point-not-requested", fmt.Sprintf("grid point %s inside the window was never requested", grid[i].Format(time.RFC3339)), input)
		}
		if seen[i] > 1 {
			cs.Violate("grid-point-requested-twice", fmt.Sprintf("grid point %s was requested by %d slices", grid[i].Format(time.RFC3339), seen[i]), input)
		}
	}
	// expected ranges: maximal runs of present, requested grid points
	var want []string
	for s := 0; s < nseries; s++ {
		i := 0
		for i < G {
			if !(pat[s][i] && seen[i] > 0) {
				i++
				continue
			}
			j := i
			for j+1 < G && pat[s][j+1] && seen[j+1] > 0 {
				j++
			}
			want = append(want, fmt.Sprintf("%s %s..%s", fp.series[s], grid[i].Format("15:04:05"), grid[j].Add(step-time.Second).Format("15:04:05")))
			i = j + 1
		}
	}
	var got []string
	for _, r := range res.Series.Ranges {
		s := ""
		r.Labels.Range(func(l labels.Label) {
			if l.Name == "s" {
				s = l.Value
			}
		})
		got = append(got, fmt.Sprintf("%s %s..%s", s, r.Start.UTC().Format("15:04:05"), r.End.UTC().Format("15:04:05")))
	}
	sort.Strings(want)
	sortedGot := append([]string(nil), got...)
	sort.Strings(sortedGot)
	if strings.Join(want, ";") != strings.Join(sortedGot, ";") {
		kind := "ranges-differ"
		if len(sortedGot) > len(want) {
			kind = "range-split"
		} else if len(sortedGot) < len(want) {
			kind = "gap-lost"
		}
		cs.Violate(fmt.Sprintf("%s step=%s", kind, step), fmt.Sprintf("presence ranges differ from the unsliced reference: want %v, got %v", want, sortedGot), input)
	}
	return cs
}

// sequence: two range queries for the same expression and step, one after the other, on one client that has a
// query cache (as in `pint watch` and whenever several checks look at one metric). What the second query returns
// must not depend on what was asked before: it is compared with the same query on a fresh client.
func sequence(c *explore.Chooser) *explore.Case {
	step := []time.Duration{5 * time.Minute, 7 * time.Minute, time.Minute}[c.Free(3, "step")]
	starts := []time.Duration{0, time.Hour, 2 * time.Hour, 90*time.Minute + 13*time.Second}
	lengths := []time.Duration{2*time.Hour + 30*time.Second, 4*time.Hour + 30*time.Second, 3 * time.Hour, 4 * time.Hour, 2*time.Hour + step, time.Hour}
	// the earlier query may use another step (added after seed C11_4: a slice cached for one step must not answer
	// a query with another one); presence is a function of the instant alone, so both grids see the same data
	s1 := c.Free(3, "first.step")
	step1 := []time.Duration{step, time.Minute, 5 * time.Minute}[s1]
	if step1 == step && s1 != 0 {
		return &explore.Case{Skip: true}
	}
	mk := func(tag string, st time.Duration) window {
		w := window{start: epoch.Add(starts[c.Free(len(starts), tag+".start")]), step: st}
		w.end = w.start.Add(lengths[c.Free(len(lengths), tag+".length")])
		return w
	}
	w1, w2 := mk("first", step1), mk("second", step)
	gaps := c.Free(2, "gaps") == 1
	present := func(s int, t time.Time) bool {
		if !gaps {
			return true
		}
		k := int(t.Sub(epoch)/step) + s
		return k%7 != 3 && k%25 != 0
	}
	fixedNow := epoch.Add(24 * time.Hour)
	run := func(ws ...window) (string, error) {
		fp := &fakeProm{failAt: -1, series: []string{"a", "b"}, present: present}
		prom := promapi.VerifNewPrometheus("p", "http://fake", 2, fp, func() time.Time { return fixedNow })
		prom.StartWorkers()
		defer prom.Close()
		var out string
		for _, w := range ws {
			res, err := prom.RangeQuery(context.Background(), "m", w)
			if err != nil {
				return "", err
			}
			var l []string
			for _, r := range res.Series.Ranges {
				l = append(l, fmt.Sprintf("%s %s..%s", r.Labels.Get("s"), r.Start.UTC().Format("15:04:05"), r.End.UTC().Format("15:04:05")))
			}
			sort.Strings(l)
			out = strings.Join(l, ";")
		}
		return out, nil
	}
	input := map[string]any{"step": step.String(), "first_step": step1.String(), "first_query": fmt.Sprintf("%s..%s", w1.start.Format("15:04:05"), w1.end.Format("15:04:05")), "second_query": fmt.Sprintf("%s..%s", w2.start.Format("15:04:05"), w2.end.Format("15:04:05")), "gaps": gaps}
	cs := &explore.Case{Input: input, Key: fmt.Sprint(input), Outcome: "sequence"}
	warm, err1 := run(w1, w2)
	cold, err2 := run(w2)
	if err1 != nil || err2 != nil {
		cs.Violate("sequence: range-query-error", fmt.Sprint(err1, err2), input)
		return cs
	}
	if warm != cold {
		cs.Violate(fmt.Sprintf("sequence: earlier query changes the answer step=%s", step), fmt.Sprintf("asked after %v the query returns %s, asked on a fresh client it returns %s", input["first_query"], warm, cold), input)
	}
	return cs
}

// failover: a group of two upstreams that share one query cache (as FailoverGroup.StartWorkers arranges). The first
// upstream answers some slices and then fails one with a 503, so the group asks the second upstream, whose data
// differ. The answer must be the second upstream's unsliced evaluation: nothing the first one said may be merged
// into it (added after seed C13_4, which keyed cached slices by the group's name instead of the upstream's URI).
func failover(c *explore.Chooser) *explore.Case {
	step := []time.Duration{5 * time.Minute, time.Minute, 7 * time.Minute}[c.Free(3, "step")]
	w := window{start: epoch.Add([]time.Duration{0, time.Hour, 90*time.Minute + 13*time.Second}[c.Free(3, "start")]), step: step}
	w.end = w.start.Add([]time.Duration{4*time.Hour + 30*time.Second, 6 * time.Hour, 3 * time.Hour}[c.Free(3, "length")])
	conc := 1 + c.Free(2, "concurrency")
	failAt := c.Free(4, "failing-arrival-on-first-upstream")
	again := c.Free(2, "asked-again-afterwards") == 1
	presentB := func(s int, t time.Time) bool {
		k := int(t.Sub(epoch)/step) + s
		return k%7 != 3 && k%25 != 0
	}
	always := func(int, time.Time) bool { return true }
	render := func(res *promapi.RangeQueryResult) string {
		var l []string
		for _, r := range res.Series.Ranges {
			l = append(l, fmt.Sprintf("%s %s..%s", r.Labels.Get("s"), r.Start.UTC().Format("15:04:05"), r.End.UTC().Format("15:04:05")))
		}
		sort.Strings(l)
		return strings.Join(l, ";")
	}
	fixedNow := epoch.Add(24 * time.Hour)
	now := func() time.Time { return fixedNow }
	input := map[string]any{"step": step.String(), "query": fmt.Sprintf("%s..%s", w.start.Format("15:04:05"), w.end.Format("15:04:05")), "concurrency": conc, "first_upstream_fails_request": failAt, "asked_again": again}
	cs := &explore.Case{Input: input, Key: fmt.Sprint(input), Outcome: "failover"}
	// reference: the second upstream alone, fresh client
	fpRef := &fakeProm{failAt: -1, series: []string{"a", "b"}, present: presentB}
	ref := promapi.VerifNewPrometheus("p", "http://b", conc, fpRef, now)
	ref.StartWorkers()
	res, err := ref.RangeQuery(context.Background(), "m", w)
	ref.Close()
	if err != nil {
		cs.Violate("failover: range-query-error", err.Error(), input)
		return cs
	}
	cold := render(res)
	fpA := &fakeProm{failAt: failAt, series: []string{"a", "b"}, present: always}
	fpB := &fakeProm{failAt: -1, series: []string{"a", "b"}, present: presentB}
	promA := promapi.VerifNewPrometheus("p", "http://a", conc, fpA, now)
	promB := promapi.VerifNewPrometheus("p", "http://b", conc, fpB, now)
	promapi.VerifShareCache(promA, promB)
	promA.StartWorkers()
	promB.StartWorkers()
	defer promA.Close()
	defer promB.Close()
	fg := promapi.NewFailoverGroup("p", "http://a", []*promapi.Prometheus{promA, promB}, true, "up", nil, nil, nil)
	res, err = fg.RangeQuery(context.Background(), "m", w)
	if err != nil {
		cs.Violate("failover: range-query-error", err.Error(), input)
		return cs
	}
	fpA.mu.Lock()
	failed := fpA.arrivals > failAt
	fpA.mu.Unlock()
	want, whose := cold, "second"
	if !failed { // fewer slices than failAt: the first upstream answered everything
		want, whose = "", "first"
		cs.Outcome = "failover: first upstream answered"
	}
	if got := render(res); want != "" && got != want {
		cs.Violate(fmt.Sprintf("failover: answer mixes upstreams step=%s", step), fmt.Sprintf("the group answered %s, the %s upstream alone answers %s", got, whose, want), input)
		return cs
	}
	if again && failed {
		// the first upstream is healthy again (only one request fails): it answers, with its own data
		res, err = fg.RangeQuery(context.Background(), "m", w)
		if err != nil {
			cs.Violate("failover: range-query-error", err.Error(), input)
			return cs
		}
		fpOnlyA := &fakeProm{failAt: -1, series: []string{"a", "b"}, present: always}
		refA := promapi.VerifNewPrometheus("p", "http://a", conc, fpOnlyA, now)
		refA.StartWorkers()
		resA, errA := refA.RangeQuery(context.Background(), "m", w)
		refA.Close()
		if errA != nil {
			cs.Violate("failover: range-query-error", errA.Error(), input)
			return cs
		}
		if got, wantA := render(res), render(resA); got != wantA {
			cs.Violate(fmt.Sprintf("failover: answer mixes upstreams (asked again) step=%s", step), fmt.Sprintf("the group answered %s, the first upstream alone answers %s", got, wantA), input)
		}
	}
	return cs
}

// orders: all arrival orders of slice responses under the controlled scheduler.
func orders(c *explore.Chooser) *explore.Case {
	step := []time.Duration{5 * time.Minute, 7 * time.Minute}[c.Free(2, "step")]
	length := []time.Duration{3 * time.Hour, 5 * time.Hour}[c.Free(2, "length")] // 2-3 / 3-4 slices
	conc := 1 + c.Free(3, "concurrency")
	fail := c.Free(2, "one-slice-fails") == 1
	w := window{start: epoch.Add(30 * time.Minute), step: step}
	w.end = w.start.Add(length)
	sliceSize := (2 * time.Hour).Round(step)
	t0 := w.start.Round(sliceSize)
	if t0.After(w.start) {
		t0 = t0.Add(-sliceSize)
	}
	// one series present everywhere except one grid point right after the first slice boundary; a second
	// series present only around the second boundary
	gap := t0.Add(sliceSize).Add(step)
	fp := &fakeProm{failAt: -1, series: []string{"a", "b"}, present: func(s int, t time.Time) bool {
		if s == 0 {
			return !t.Equal(gap)
		}
		d := t.Sub(t0.Add(2 * sliceSize))
		return d >= -2*step && d <= 2*step
	}}
	if fail {
		fp.failAt = c.Free(3, "failing-arrival")
	}
	var res *promapi.RangeQueryResult
	var err error
	prom := promapi.VerifNewPrometheus("p", "http://fake", conc, fp, nil)
	sched, reason := rt.RunOpt(c, rt.Options{Horizon: 50000, CostFree: true}, func() {
		prom.StartWorkers()
		res, err = prom.RangeQuery(context.Background(), "m", w)
		prom.Close()
	})
	input := map[string]any{"step": step.String(), "length": length.String(), "concurrency": conc, "one_slice_fails": fail}
	cs := &explore.Case{Input: input}
	cs.Count("transitions", int64(sched.Points))
	if reason != "" {
		cs.Violate("orders: "+strings.SplitN(reason, ":", 2)[0], reason, input)
		return cs
	}
	if un := sched.Unfinished(); len(un) > 0 {
		cs.Violate("orders: goroutines left behind", fmt.Sprint(un), input)
	}
	var arrival []string
	for _, r := range fp.requests {
		arrival = append(arrival, r.start.Format("15:04"))
	}
	cs.AddToSet("arrival_orders", strings.Join(arrival, ","))
	if fail {
		cs.Outcome = "failed-slice"
		if fp.failAt < len(fp.requests) && err == nil {
			cs.Violate("orders: slice error swallowed", "one slice answered 503 but RangeQuery succeeded", input)
		}
		return cs
	}
	if err != nil {
		cs.Violate("orders: unexpected error", err.Error(), input)
		return cs
	}
	// reference without slices
	var want []string
	for s := 0; s < 2; s++ {
		var run []time.Time
		flush := func() {
			if len(run) > 0 {
				want = append(want, fmt.Sprintf("%s %s..%s", fp.series[s], run[0].Format("15:04:05"), run[len(run)-1].Add(step-time.Second).Format("15:04:05")))
				run = nil
			}
		}
		for t := t0; !t.After(w.end); t = t.Add(step) {
			if fp.present(s, t) {
				run = append(run, t)
			} else {
				flush()
			}
		}
		flush()
	}
	var got []string
	for _, r := range res.Series.Ranges {
		got = append(got, fmt.Sprintf("%s %s..%s", r.Labels.Get("s"), r.Start.UTC().Format("15:04:05"), r.End.UTC().Format("15:04:05")))
	}
	sort.Strings(want)
	sort.Strings(got)
	cs.Outcome = "ok"
	if strings.Join(want, ";") != strings.Join(got, ";") {
		cs.Violate("orders: result depends on arrival order", fmt.Sprintf("slice responses arriving in order %v give %v, the unsliced reference is %v", arrival, got, want), input)
	}
	return cs
}

var tier string

func ifThorough(a, b int) int {
	if tier == "thorough" {
		return a
	}
	return b
}

func main() {
	explore.Main(&explore.Config{
		Property: "C13", Level: "exploration",
		Rule:        "real Prometheus.RangeQuery over a fake transport answering every query_range slice from a presence model; windows = 6 steps (incl. 7m and 11m which do not divide 2h) x 5 start offsets x 6 lengths x concurrency 1..3; presence patterns = ALL subsets of the grid for coarse grids (quick: <=7 points one series, <=3 two series; thorough: <=10 / <=5), otherwise always / one run / one gap / single missing point / single present point with end points on every window edge and within +-2 grid points of every slice boundary, for one and two series; oracle: every grid point requested exactly once on one global grid, result ranges = maximal runs of present consecutive grid points computed without slices; space arrival-orders: the same client with its synchronisation replaced by scheduler shims, 2-4 slices, concurrency 1..3, a gap right after a slice boundary and a series straddling the next one: every schedule within 2 (thorough 3) departures from the default one, with happens-before state caching: result equals the unsliced reference, one failing slice makes the call fail, no deadlock, no goroutine left behind; space sequence: two range queries (24 windows each, incl. ends just after a slice boundary) for one expression on one client with a query cache, the earlier one with the same or another step (1m/5m): the second answer must equal the answer of a fresh client; space failover: a group of two upstreams sharing one query cache, the first answers always-present data and fails its k-th request (k<4) with a 503, the second has gaps: 3 steps x 3 starts x 3 lengths x concurrency 1..2: the group's answer equals the second upstream's own answer, and asked again (first upstream healthy) the first upstream's own answer",
		Assumptions: []string{"presence is instantaneous (a sample exists at grid instant t iff the pattern says so)", "in the values space the arrival order of slice responses is whatever the Go runtime produces; the arrival-orders space enumerates schedules under the controlled scheduler"},
		Spaces: []*explore.Space{
			{Name: "values", Body: body, Bound: func(string) int { return -1 }, Setup: func(t string) { tier = t }},
			{Name: "sequence", Body: sequence, Bound: func(string) int { return -1 }, Setup: func(t string) { tier = t }},
			{Name: "failover", Body: failover, Bound: func(string) int { return -1 }, Setup: func(t string) { tier = t }},
			{Name: "arrival-orders", Body: orders, StateCache: true, Setup: func(t string) { tier = t }, Bound: func(t string) int {
				if t == "thorough" {
					return 3
				}
				return 2
			}},
		},
		BudgetS: func(t string) int {
			if t == "thorough" {
				return 1500
			}
			return 300
		},
	})
}
