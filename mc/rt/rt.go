// Package rt is engine S: a cooperative scheduler that lets exactly one managed goroutine run at a time and
// asks a Chooser, at every synchronisation operation, which enabled thread goes next. The shims in this
// package (Mutex, RWMutex, Cond, WaitGroup, Chan, Go, WithCancel) have the semantics of the Go primitives and
// are substituted for them in the files under test by mc/rewrite. Outside a managed execution every shim
// falls through to the real primitive, so rewritten code still works when free-running.
//
// Pending-operation model: a thread announces the visible operation it wants to perform next and parks; the
// scheduler picks among the threads whose pending operation is enabled; the chosen thread performs the
// operation atomically and runs on to its next announcement. Pure releases (Unlock, RUnlock, WaitGroup.Done)
// are not points: they never block and commute with everything another thread can have pending.
package rt

import (
	"fmt"
	"sort"
	"strconv"
	"strings"
)

// Chooser is what the scheduler needs from the explorer.
type Chooser interface {
	Choose(n int, label string) int
	Free(n int, label string) int
	SetKey(k uint64)
}

// Obj is the identity and version of a synchronisation object for happens-before hashing: the id is derived
// from the thread (and its per-thread counter) that first touched the object, the version counts the
// operations performed on it. Two executions in which every thread performed the same operations and
// observed the same object versions are the same partial order, hence reach the same state.
type Obj struct {
	id  uint64
	ver uint64
}

func mix(h uint64, vs ...uint64) uint64 {
	for _, v := range vs {
		h ^= v + 0x9e3779b97f4a7c15 + (h << 6) + (h >> 2)
		h *= 1099511628211
	}
	return h
}

func strHash(s string) uint64 {
	h := uint64(14695981039346656037)
	for i := 0; i < len(s); i++ {
		h = (h ^ uint64(s[i])) * 1099511628211
	}
	return h
}

// touch records that the running thread performs op on o and bumps the object's version.
func (s *Sched) touch(o *Obj, op string) {
	t := s.cur
	if o.id == 0 {
		t.objs++
		o.id = mix(t.idHash, uint64(t.objs)) | 1
	}
	t.hist = mix(t.hist, strHash(op), o.id, o.ver)
	o.ver++
}

// Touch lets a harness record an operation on a harness-level shared object (e.g. the fake server).
func Touch(o *Obj, op string) {
	if s := active; s != nil && s.aborted == "" {
		s.touch(o, op)
	}
}

// Observe folds a harness-level observation (a value read from shared state) into the running thread's
// history, so that executions in which the thread saw different values are not merged.
func Observe(v uint64) {
	if s := active; s != nil {
		s.cur.hist = mix(s.cur.hist, v)
	}
}

func (s *Sched) stateKey(running *thread) uint64 {
	ts := append([]*thread(nil), s.threads...)
	sort.Slice(ts, func(i, j int) bool { return lessID(ts[i].id, ts[j].id) })
	h := uint64(1469598103934665603)
	for _, t := range ts {
		d := uint64(0)
		if t.done {
			d = 1
		}
		if !t.started {
			d = 2
		}
		h = mix(h, t.idHash, t.hist, d)
	}
	if s.ExtraState != nil {
		h = mix(h, s.ExtraState())
	}
	return mix(h, running.idHash) | 1
}

type thread struct {
	id      []int // logical id: path of spawn indices
	name    string
	wake    chan struct{}
	pending *op
	done    bool
	spawned int
	started bool
	fn      func()
	idHash  uint64
	hist    uint64
	objs    int
}

type op struct {
	name      string
	enabled   func() bool
	completed bool // performed on this thread's behalf by its partner (channel rendezvous)
}

func (t *thread) idString() string {
	parts := make([]string, len(t.id))
	for i, x := range t.id {
		parts[i] = strconv.Itoa(x)
	}
	return strings.Join(parts, ".")
}

// Sched is one managed execution.
type Sched struct {
	ch          Chooser
	threads     []*thread
	cur         *thread
	main        *thread
	Points      int
	Horizon     int
	Trace       []string // operation log (thread id: op), kept when KeepTrace is set
	KeepTrace   bool
	aborted     string
	Deadlock    []string // pending operation of every unfinished thread at deadlock
	Preemptions int
	world       Obj // all Yield points are ordered through this object
	// OnPoint, if set, is called at every scheduling point (monitors that must hold at every state).
	OnPoint func()
	// ExtraState, if set, is folded into every state key (harness state the scheduler cannot see).
	ExtraState func() uint64
	// CostFree: every departure from the default schedule (keep running while enabled, otherwise the lowest
	// logical id) costs a deviation, not only preemptions. For scenarios too large for preemption bounding.
	CostFree bool
}

type abortPanic struct{ reason string }

var active *Sched

// Active reports whether a managed execution is running.
func Active() bool { return active != nil }

// Current returns the running execution (nil outside).
func Current() *Sched { return active }

func lessID(a, b []int) bool {
	for i := 0; i < len(a) && i < len(b); i++ {
		if a[i] != b[i] {
			return a[i] < b[i]
		}
	}
	return len(a) < len(b)
}

// Run executes body as thread 0 under the scheduler and keeps scheduling until every thread finished,
// a deadlock occurs, or the horizon is hit. It returns the abort reason ("" = ran to completion).
func Run(c Chooser, horizon int, keepTrace bool, onPoint func(), body func()) (s *Sched, reason string) {
	return RunX(c, horizon, keepTrace, onPoint, nil, body)
}

// RunX is Run with a harness state digest folded into every state key.
func RunX(c Chooser, horizon int, keepTrace bool, onPoint func(), extra func() uint64, body func()) (s *Sched, reason string) {
	return RunOpt(c, Options{Horizon: horizon, KeepTrace: keepTrace, OnPoint: onPoint, ExtraState: extra}, body)
}

// Options configures a managed execution.
type Options struct {
	Horizon    int
	KeepTrace  bool
	OnPoint    func()
	ExtraState func() uint64
	CostFree   bool
}

func RunOpt(c Chooser, o Options, body func()) (s *Sched, reason string) {
	if active != nil {
		panic("rt.Run: nested managed executions are not supported")
	}
	horizon, keepTrace, onPoint, extra := o.Horizon, o.KeepTrace, o.OnPoint, o.ExtraState
	s = &Sched{ch: c, Horizon: horizon, KeepTrace: keepTrace, OnPoint: onPoint, ExtraState: extra, CostFree: o.CostFree}
	m := &thread{id: []int{0}, wake: make(chan struct{}, 1), started: true, idHash: strHash("0")}
	s.threads = []*thread{m}
	s.cur, s.main = m, m
	active = s
	defer func() { active = nil }()
	func() {
		defer func() {
			if p := recover(); p != nil {
				if _, ok := p.(abortPanic); ok {
					return
				}
				s.abortAll(fmt.Sprintf("panic on main thread: %v", p))
				panic(p)
			}
		}()
		body()
		// main is finished: let the others run to completion
		m.done = true
		s.switchAway(m, true)
	}()
	m.done = true
	if s.aborted != "" {
		s.drain()
	}
	return s, s.aborted
}

// drain unwinds, one at a time, every thread that is still parked after an abort, so that no goroutine is
// left behind and deferred clean-up in the code under test never runs concurrently.
func (s *Sched) drain() {
	for {
		var t *thread
		for _, x := range s.threads {
			if x.started && !x.done && x != s.main {
				t = x
				break
			}
		}
		if t == nil {
			return
		}
		s.cur = t
		t.wake <- struct{}{}
		<-s.main.wake
	}
}

func (s *Sched) log(t *thread, what string) {
	if s.KeepTrace {
		s.Trace = append(s.Trace, t.idString()+": "+what)
	}
}

// enabledThreads lists threads that could take the next step, canonical order: the running thread first if
// it is enabled, then ascending logical ids.
func (s *Sched) enabledThreads(running *thread) (out []*thread, runningEnabled bool) {
	var others []*thread
	for _, t := range s.threads {
		if t.done {
			continue
		}
		en := false
		switch {
		case !t.started:
			en = true
		case t.pending != nil:
			en = t.pending.completed || t.pending.enabled()
		}
		if !en {
			continue
		}
		if t == running {
			runningEnabled = true
		} else {
			others = append(others, t)
		}
	}
	sort.Slice(others, func(i, j int) bool { return lessID(others[i].id, others[j].id) })
	if runningEnabled {
		out = append(out, running)
	}
	out = append(out, others...)
	return out, runningEnabled
}

// Point announces operation name with the given enabledness test, lets the scheduler decide who runs next
// and returns when this thread has been chosen to perform the operation.
func (s *Sched) Point(name string, enabled func() bool) {
	t := s.cur
	if s.aborted != "" {
		panic(abortPanic{s.aborted})
	}
	s.Points++
	if s.Horizon > 0 && s.Points > s.Horizon {
		s.abortAll(fmt.Sprintf("horizon of %d scheduling points exceeded (unexpected cycle?)", s.Horizon))
		panic(abortPanic{s.aborted})
	}
	if s.OnPoint != nil {
		s.OnPoint()
	}
	t.pending = &op{name: name, enabled: enabled}
	s.switchAway(t, false)
	t.pending = nil
	s.log(t, name)
}

// switchAway picks the next thread. finished: the calling thread is done and must not be resumed.
func (s *Sched) switchAway(t *thread, finished bool) {
	for {
		en, runningEnabled := s.enabledThreads(t)
		if finished {
			runningEnabled = false
		}
		if len(en) == 0 {
			unfinished := 0
			for _, x := range s.threads {
				if !x.done {
					unfinished++
				}
			}
			if unfinished == 0 {
				// everything ran to completion: resume main so Run can return
				if t != s.main {
					s.cur = s.main
					s.main.wake <- struct{}{}
				}
				return
			}
			for _, x := range s.threads {
				if !x.done {
					what := "not started"
					if x.pending != nil {
						what = x.pending.name
					}
					s.Deadlock = append(s.Deadlock, x.idString()+" blocked at "+what)
				}
			}
			s.abortAll("deadlock: no enabled thread, " + strings.Join(s.Deadlock, "; "))
			if finished {
				return
			}
			panic(abortPanic{s.aborted})
		}
		var next *thread
		if len(en) == 1 {
			next = en[0]
		} else {
			label := "sched"
			var k int
			s.ch.SetKey(s.stateKey(t))
			if runningEnabled || s.CostFree {
				k = s.ch.Choose(len(en), label)
				if k != 0 && runningEnabled {
					s.Preemptions++
				}
			} else {
				k = s.ch.Free(len(en), label)
			}
			next = en[k]
		}
		if next == t {
			return
		}
		s.cur = next
		if !next.started {
			next.started = true
			go s.runThread(next)
		} else {
			next.wake <- struct{}{}
		}
		if finished {
			if t == s.main {
				// main waits here until everyone is done (or the execution is aborted)
				<-t.wake
			}
			return
		}
		<-t.wake
		if s.aborted != "" {
			panic(abortPanic{s.aborted})
		}
		// woken: we are the running thread again and our pending op was chosen
		return
	}
}

func (s *Sched) runThread(t *thread) {
	defer func() {
		if p := recover(); p != nil {
			if _, ok := p.(abortPanic); !ok {
				s.abortAll(fmt.Sprintf("panic on thread %s: %v", t.idString(), p))
			}
		}
		t.done = true
		if s.aborted != "" {
			// hand control back to main, which drains the remaining threads one by one
			select {
			case s.main.wake <- struct{}{}:
			default:
			}
		}
	}()
	s.log(t, "start")
	t.fn()
	t.done = true
	s.switchAway(t, true)
}

// abortAll ends the execution: the detecting thread unwinds (panic swallowed by its top-level recover) and
// main then drains the parked threads one at a time; shims are no-ops while unwinding.
func (s *Sched) abortAll(reason string) {
	if s.aborted == "" {
		s.aborted = reason
	}
}

// Go starts fn as a new managed thread (or a plain goroutine outside a managed execution).
func Go(fn func()) {
	s := active
	if s == nil {
		go fn()
		return
	}
	if s.aborted != "" {
		return
	}
	p := s.cur
	p.spawned++
	t := &thread{id: append(append([]int{}, p.id...), p.spawned), wake: make(chan struct{}, 1), fn: fn}
	t.idHash = strHash(t.idString())
	t.hist = mix(p.hist, uint64(p.spawned))
	p.hist = mix(p.hist, strHash("go"), uint64(p.spawned))
	s.threads = append(s.threads, t)
	s.log(p, "go "+t.idString())
}

// Yield is an always-enabled point: other threads may run here (used by fake transports, explicit events).
func Yield(name string) {
	if s := active; s != nil {
		s.Point(name, func() bool { return true })
		s.touch(&s.world, name)
	}
}

// CurrentThread returns the logical id of the running thread ("" outside a managed execution).
func CurrentThread() string {
	if s := active; s != nil {
		return s.cur.idString()
	}
	return ""
}

// Unfinished returns the ids of threads that have not finished (for monitors).
func (s *Sched) Unfinished() (out []string) {
	for _, t := range s.threads {
		if !t.done {
			out = append(out, t.idString())
		}
	}
	return out
}

func unwinding() bool { return active != nil && active.aborted != "" }
