package rt

import (
	"context"
	"sync"
)

// Locker mirrors sync.Locker.
type Locker interface {
	Lock()
	Unlock()
}

// ---------- Mutex ----------

type Mutex struct {
	real   sync.Mutex
	locked bool
	obj    Obj
}

func (m *Mutex) Lock() {
	s := active
	if s == nil {
		m.real.Lock()
		return
	}
	if unwinding() {
		return
	}
	s.Point("mutex.lock", func() bool { return !m.locked })
	m.locked = true
	s.touch(&m.obj, "lock")
}

func (m *Mutex) Unlock() {
	if active == nil {
		m.real.Unlock()
		return
	}
	if unwinding() {
		return
	}
	if !m.locked {
		panic("rt: unlock of unlocked mutex")
	}
	m.locked = false
	active.touch(&m.obj, "unlock")
}

func (m *Mutex) TryLock() bool {
	if active == nil {
		return m.real.TryLock()
	}
	if m.locked {
		return false
	}
	m.locked = true
	return true
}

// ---------- RWMutex ----------

type RWMutex struct {
	real    sync.RWMutex
	writer  bool
	readers int
	obj     Obj
}

func (m *RWMutex) Lock() {
	s := active
	if s == nil {
		m.real.Lock()
		return
	}
	if unwinding() {
		return
	}
	s.Point("rwmutex.lock", func() bool { return !m.writer && m.readers == 0 })
	m.writer = true
	s.touch(&m.obj, "wlock")
}

func (m *RWMutex) Unlock() {
	if active == nil {
		m.real.Unlock()
		return
	}
	if unwinding() {
		return
	}
	m.writer = false
	active.touch(&m.obj, "wunlock")
}

func (m *RWMutex) RLock() {
	s := active
	if s == nil {
		m.real.RLock()
		return
	}
	if unwinding() {
		return
	}
	s.Point("rwmutex.rlock", func() bool { return !m.writer })
	m.readers++
	s.touch(&m.obj, "rlock")
}

func (m *RWMutex) RUnlock() {
	if active == nil {
		m.real.RUnlock()
		return
	}
	if unwinding() {
		return
	}
	m.readers--
	active.touch(&m.obj, "runlock")
}

// ---------- Cond ----------

type condWaiter struct {
	t        *thread
	signaled bool
}

type Cond struct {
	L       Locker
	real    *sync.Cond
	waiters []*condWaiter
	obj     Obj
}

func NewCond(l Locker) *Cond {
	c := &Cond{L: l}
	c.real = sync.NewCond(l)
	return c
}

// Wait = unlock + join the waiters (atomically, the caller is the only running thread), then a point that is
// enabled once signalled, then re-acquiring the lock (a mutex point of its own). No spurious wake-ups.
func (c *Cond) Wait() {
	s := active
	if s == nil {
		c.real.Wait()
		return
	}
	if unwinding() {
		return
	}
	w := &condWaiter{t: s.cur}
	c.waiters = append(c.waiters, w)
	s.touch(&c.obj, "wait")
	c.L.Unlock()
	s.Point("cond.wait", func() bool { return w.signaled })
	s.touch(&c.obj, "woken")
	c.L.Lock()
}

func (c *Cond) Signal() {
	s := active
	if s == nil {
		c.real.Signal()
		return
	}
	if unwinding() {
		return
	}
	s.Point("cond.signal", func() bool { return true })
	s.touch(&c.obj, "signal")
	for i, w := range c.waiters {
		if !w.signaled {
			w.signaled = true
			c.waiters = append(c.waiters[:i], c.waiters[i+1:]...)
			break
		}
	}
}

func (c *Cond) Broadcast() {
	s := active
	if s == nil {
		c.real.Broadcast()
		return
	}
	if unwinding() {
		return
	}
	s.Point("cond.broadcast", func() bool { return true })
	s.touch(&c.obj, "broadcast")
	for _, w := range c.waiters {
		w.signaled = true
	}
	c.waiters = nil
}

// ---------- WaitGroup ----------

type WaitGroup struct {
	real sync.WaitGroup
	n    int
	obj  Obj
}

func (wg *WaitGroup) Add(d int) {
	if active == nil {
		wg.real.Add(d)
		return
	}
	if unwinding() {
		return
	}
	wg.n += d
	active.touch(&wg.obj, "add")
	if wg.n < 0 {
		panic("rt: negative WaitGroup counter")
	}
}

func (wg *WaitGroup) Done() { wg.Add(-1) }

func (wg *WaitGroup) Wait() {
	s := active
	if s == nil {
		wg.real.Wait()
		return
	}
	if unwinding() {
		return
	}
	s.Point("waitgroup.wait", func() bool { return wg.n == 0 })
	s.touch(&wg.obj, "waited")
}

// ---------- Chan ----------

type chanWaiter[T any] struct {
	t    *thread
	o    *op
	val  T    // value offered by a parked sender / received for a parked receiver
	ok   bool // for receivers: value came from a send (false: channel closed)
	done bool
}

// Chan has the semantics of a Go channel of capacity n (0 = unbuffered rendezvous).
type Chan[T any] struct {
	real   chan T
	cap    int
	buf    []T
	closed bool
	sendq  []*chanWaiter[T]
	recvq  []*chanWaiter[T]
	obj    Obj
}

func NewChan[T any](n int) *Chan[T] {
	return &Chan[T]{real: make(chan T, n), cap: n}
}

func (c *Chan[T]) Send(v T) {
	s := active
	if s == nil {
		c.real <- v
		return
	}
	if unwinding() {
		return
	}
	w := &chanWaiter[T]{t: s.cur, val: v}
	c.sendq = append(c.sendq, w)
	// enabled: room in the buffer, a receiver is parked, or the channel is closed (then Send panics like Go)
	o := func() bool { return w.done || c.closed || len(c.buf) < c.cap || c.parkedReceiver() != nil }
	s.pointWith("chan.send", o, func(p *op) { w.o = p })
	s.touch(&c.obj, "send")
	c.removeSender(w)
	if w.done {
		return // a receiver took the value while we were parked
	}
	if c.closed {
		panic("send on closed channel")
	}
	if r := c.parkedReceiver(); r != nil {
		r.val, r.ok, r.done = v, true, true
		r.o.completed = true
		c.removeReceiver(r)
		return
	}
	c.buf = append(c.buf, v)
}

func (c *Chan[T]) Recv() T {
	v, _ := c.Recv2()
	return v
}

func (c *Chan[T]) Recv2() (T, bool) {
	var zero T
	s := active
	if s == nil {
		v, ok := <-c.real
		return v, ok
	}
	if unwinding() {
		return zero, false
	}
	w := &chanWaiter[T]{t: s.cur}
	c.recvq = append(c.recvq, w)
	o := func() bool { return w.done || len(c.buf) > 0 || c.closed || c.parkedSender() != nil }
	s.pointWith("chan.recv", o, func(p *op) { w.o = p })
	s.touch(&c.obj, "recv")
	c.removeReceiver(w)
	if w.done {
		return w.val, w.ok
	}
	if len(c.buf) > 0 {
		v := c.buf[0]
		c.buf = c.buf[1:]
		// a parked sender can now move its value into the buffer
		if sd := c.parkedSender(); sd != nil && len(c.buf) < c.cap {
			c.buf = append(c.buf, sd.val)
			sd.done = true
			sd.o.completed = true
			c.removeSender(sd)
		}
		return v, true
	}
	if sd := c.parkedSender(); sd != nil {
		sd.done = true
		sd.o.completed = true
		c.removeSender(sd)
		return sd.val, true
	}
	return zero, false // closed and drained
}

func (c *Chan[T]) Close() {
	s := active
	if s == nil {
		close(c.real)
		return
	}
	if unwinding() {
		return
	}
	s.Point("chan.close", func() bool { return true })
	s.touch(&c.obj, "close")
	if c.closed {
		panic("close of closed channel")
	}
	c.closed = true
}

func (c *Chan[T]) Len() int {
	if active == nil {
		return len(c.real)
	}
	return len(c.buf)
}

func (c *Chan[T]) parkedReceiver() *chanWaiter[T] {
	for _, r := range c.recvq {
		if !r.done && r.o != nil {
			return r
		}
	}
	return nil
}

func (c *Chan[T]) parkedSender() *chanWaiter[T] {
	for _, sd := range c.sendq {
		if !sd.done && sd.o != nil {
			return sd
		}
	}
	return nil
}

func (c *Chan[T]) removeSender(w *chanWaiter[T]) {
	for i, x := range c.sendq {
		if x == w {
			c.sendq = append(c.sendq[:i], c.sendq[i+1:]...)
			return
		}
	}
}

func (c *Chan[T]) removeReceiver(w *chanWaiter[T]) {
	for i, x := range c.recvq {
		if x == w {
			c.recvq = append(c.recvq[:i], c.recvq[i+1:]...)
			return
		}
	}
}

// pointWith is Point that exposes the pending op so a partner can complete it.
func (s *Sched) pointWith(name string, enabled func() bool, bind func(*op)) {
	t := s.cur
	if s.aborted != "" {
		panic(abortPanic{s.aborted})
	}
	s.Points++
	if s.Horizon > 0 && s.Points > s.Horizon {
		s.abortAll("horizon exceeded")
		panic(abortPanic{s.aborted})
	}
	if s.OnPoint != nil {
		s.OnPoint()
	}
	t.pending = &op{name: name, enabled: enabled}
	bind(t.pending)
	s.switchAway(t, false)
	t.pending = nil
	s.log(t, name)
}

// ---------- context ----------

// WithCancel is context.WithCancel with a scheduling point before the cancellation takes effect.
func WithCancel(parent context.Context) (context.Context, context.CancelFunc) {
	ctx, cancel := context.WithCancel(parent)
	return ctx, func() {
		if active != nil && !unwinding() {
			Yield("context.cancel")
		}
		cancel()
	}
}
