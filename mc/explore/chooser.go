// Package explore is engine E: deviation-bounded exhaustive exploration of a choice tree.
//
// A harness body is a deterministic function of a Chooser. Option 0 is always the default;
// every other option of a Choose point costs one deviation, options of a Free point cost
// nothing. The explorer enumerates every execution whose total deviation count is within the
// bound (bound < 0: unbounded, plain exhaustive DFS of a finite tree).
package explore

import (
	"fmt"
	"strconv"
)

// Point is one recorded choice point of an execution.
type Point struct {
	N      int    `json:"n"`
	Choice int    `json:"c"`
	Free   bool   `json:"f,omitempty"`
	Label  string `json:"l,omitempty"`
}

// PrefixEntry is a choice to replay together with a fingerprint of the point it was taken at,
// so that a body that is not deterministic fails loudly instead of silently exploring garbage.
type PrefixEntry struct {
	C int
	H uint32
}

// compact wire form: one number, choice<<32 | fingerprint
func (e PrefixEntry) MarshalJSON() ([]byte, error) {
	return []byte(strconv.FormatUint(uint64(e.C)<<32|uint64(e.H), 10)), nil
}

func (e *PrefixEntry) UnmarshalJSON(b []byte) error {
	v, err := strconv.ParseUint(string(b), 10, 64)
	if err != nil {
		return err
	}
	e.C, e.H = int(v>>32), uint32(v)
	return nil
}

type Chooser struct {
	prefix []PrefixEntry
	Points []Point
	// KeepLabels makes the chooser retain labels in Points (replay files, debugging).
	KeepLabels bool
	hashes     []uint32
	// NextKey, when set non-zero by the body before a Choose/Free call, is the key of the global state at
	// that point; the explorer prunes points whose state it already expanded with at least as much budget.
	NextKey uint64
	keys    []uint64
}

func pointHash(n int, free bool, label string) uint32 {
	h := uint32(2166136261)
	for i := 0; i < len(label); i++ {
		h = (h ^ uint32(label[i])) * 16777619
	}
	h = (h ^ uint32(n)) * 16777619
	if free {
		h = (h ^ 1) * 16777619
	}
	if h == 0 {
		h = 1
	}
	return h
}

type divergence struct{ msg string }

func (c *Chooser) point(n int, free bool, label string) int {
	if n <= 0 {
		panic(divergence{fmt.Sprintf("choice point %q with %d options", label, n)})
	}
	i := len(c.Points)
	ch := 0
	if i < len(c.prefix) {
		e := c.prefix[i]
		if e.H != 0 && e.H != pointHash(n, free, label) {
			panic(divergence{fmt.Sprintf("replay divergence at point %d: now (n=%d free=%v label=%q) does not match the recorded point", i, n, free, label)})
		}
		if e.C < 0 || e.C >= n {
			panic(divergence{fmt.Sprintf("replay divergence at point %d (%q): choice %d out of range %d", i, label, e.C, n)})
		}
		ch = e.C
	}
	p := Point{N: n, Choice: ch, Free: free}
	if c.KeepLabels {
		p.Label = label
	}
	c.Points = append(c.Points, p)
	c.hashes = append(c.hashes, pointHash(n, free, label))
	c.keys = append(c.keys, c.NextKey)
	c.NextKey = 0
	return ch
}

// Choose returns an option in [0,n); option 0 is the default, any other costs one deviation.
func (c *Chooser) Choose(n int, label string) int { return c.point(n, false, label) }

// Free returns an option in [0,n); alternatives cost no deviation.
func (c *Chooser) Free(n int, label string) int { return c.point(n, true, label) }

// SetKey publishes the key of the global state at the next choice point (see NextKey).
func (c *Chooser) SetKey(k uint64) { c.NextKey = k }

// Bool is Choose(2) as a bool (default false).
func (c *Chooser) Bool(label string) bool { return c.point(2, false, label) == 1 }

// Deviations returns the number of costed non-default choices taken so far.
func (c *Chooser) Deviations() int {
	d := 0
	for _, p := range c.Points {
		if !p.Free && p.Choice != 0 {
			d++
		}
	}
	return d
}

// Choices returns the choice list of the execution so far.
func (c *Chooser) Choices() []int {
	out := make([]int, len(c.Points))
	for i, p := range c.Points {
		out[i] = p.Choice
	}
	return out
}

// NewReplay builds a chooser that replays plain choices (no fingerprints), then defaults.
func NewReplay(choices []int, keepLabels bool) *Chooser {
	c := &Chooser{KeepLabels: keepLabels}
	for _, x := range choices {
		c.prefix = append(c.prefix, PrefixEntry{C: x})
	}
	return c
}
