package explore

import (
	"bufio"
	"crypto/sha1"
	"encoding/base64"
	"encoding/binary"
	"encoding/json"
	"fmt"
	"io"
	"os"
	"os/exec"
	"path/filepath"
	"runtime"
	"sort"
	"strconv"
	"strings"
	"sync"
	"syscall"
	"time"
)

func stringsReader(s string) io.Reader   { return strings.NewReader(s) }
func lastIndexByte(s string, c byte) int { return strings.LastIndexByte(s, c) }
func hasPrefix(s, p string) bool         { return strings.HasPrefix(s, p) }

// Config describes one property check.
type Config struct {
	Property    string
	Level       string // evidence level: exploration | fault_enumeration | model_checking
	Spaces      []*Space
	Rule        string
	Assumptions []string
	// BudgetS is the wall-clock budget in seconds per tier; when it expires the run stops handing
	// out work, reports what was completed and sets exhaustive:false (never a violation).
	BudgetS func(tier string) int
	// CrashSig: if a worker process dies while running a case, that is a violation with this
	// signature prefix (after two reproductions); "" = harness error.
	CrashSig string
	// Finish runs after aggregation; it may add cross-execution violations (returned) or fail the
	// harness itself (vacuity guards) by returning a non-empty error string.
	Finish func(tier string, agg *Aggregate) (viol []Violation, harnessErr string)
	// Extra lets a harness add keys to coverage.
	Extra func(tier string, agg *Aggregate) map[string]any
	// MinShards tunes how finely the tree is cut (default 8 per worker).
	ShardsPerWorker int
	// MaxExpandLevel limits how deep the coordinator expands to find shards (default 3).
	MaxExpandLevel int
}

func (c *Config) space(name string) *Space {
	for _, s := range c.Spaces {
		if s.Name == name {
			return s
		}
	}
	return nil
}

// Aggregate is the merged result of a run.
type Aggregate struct {
	Execs, Skipped, Points, Trivial, Pruned int64
	MaxDepth, MaxDev                        int
	Keys                                    map[uint64]struct{}
	Outcomes                                map[string]int64
	Stats                                   map[string]int64
	Sets                                    map[string]map[string]struct{}
	Viol                                    []foundViolation
	Samples                                 []sample
	Incomplete                              []string
	PerSpace                                map[string]*SpaceAgg
	Crashes                                 []crash
}

type SpaceAgg struct {
	Execs    int64 `json:"executions"`
	Skipped  int64 `json:"skipped"`
	Bound    int   `json:"deviation_bound"`
	Shards   int   `json:"shards"`
	Complete bool  `json:"complete"`
	MaxDepth int   `json:"max_depth"`
}

type crash struct {
	Space   string
	Choices []int
	Stderr  string
}

func (a *Aggregate) merge(space string, r *shardResult) {
	a.Execs += r.Execs
	a.Skipped += r.Skipped
	a.Points += r.Points
	a.Trivial += r.Trivial
	a.Pruned += r.Pruned
	if r.MaxDepth > a.MaxDepth {
		a.MaxDepth = r.MaxDepth
	}
	if r.MaxDev > a.MaxDev {
		a.MaxDev = r.MaxDev
	}
	sa := a.PerSpace[space]
	sa.Execs += r.Execs
	sa.Skipped += r.Skipped
	if r.MaxDepth > sa.MaxDepth {
		sa.MaxDepth = r.MaxDepth
	}
	if r.Keys != "" {
		if b, err := base64.StdEncoding.DecodeString(r.Keys); err == nil {
			salt := hashKey(space)
			for i := 0; i+8 <= len(b); i += 8 {
				a.Keys[binary.LittleEndian.Uint64(b[i:])^salt] = struct{}{}
			}
		}
	}
	for k, v := range r.Outcomes {
		if _, ok := a.Outcomes[k]; ok || len(a.Outcomes) < maxOutcomes {
			a.Outcomes[k] += v
		}
	}
	for k, v := range r.Stats {
		a.Stats[k] += v
	}
	for k, vs := range r.Sets {
		m := a.Sets[k]
		if m == nil {
			m = map[string]struct{}{}
			a.Sets[k] = m
		}
		for _, v := range vs {
			m[v] = struct{}{}
		}
	}
	a.Viol = append(a.Viol, r.Viol...)
	if len(a.Samples) < 6 {
		a.Samples = append(a.Samples, r.Samples...)
	}
}

type worker struct {
	cmd      *exec.Cmd
	in       io.WriteCloser
	out      *bufio.Reader
	progress string
	errPath  string
}

func startWorker(id int, dir string) (*worker, error) {
	exe, err := os.Executable()
	if err != nil {
		return nil, err
	}
	w := &worker{}
	w.progress = filepath.Join(dir, fmt.Sprintf("progress.%d.%d", os.Getpid(), id))
	w.errPath = filepath.Join(dir, fmt.Sprintf("worker.%d.%d.stderr", os.Getpid(), id))
	w.cmd = exec.Command(exe, "-worker")
	w.cmd.Env = append(os.Environ(), "VERIF_PROGRESS="+w.progress, "GOMAXPROCS="+envOr("VERIF_WORKER_GOMAXPROCS", "2"))
	ef, err := os.Create(w.errPath)
	if err != nil {
		return nil, err
	}
	w.cmd.Stderr = ef
	w.in, err = w.cmd.StdinPipe()
	if err != nil {
		return nil, err
	}
	op, err := w.cmd.StdoutPipe()
	if err != nil {
		return nil, err
	}
	w.out = bufio.NewReaderSize(op, 1<<20)
	if err := w.cmd.Start(); err != nil {
		return nil, err
	}
	ef.Close()
	return w, nil
}

func envOr(k, d string) string {
	if v := os.Getenv(k); v != "" {
		return v
	}
	return d
}

func (w *worker) stop() {
	if w == nil || w.cmd == nil {
		return
	}
	w.in.Close()
	done := make(chan struct{})
	go func() { w.cmd.Wait(); close(done) }()
	select {
	case <-done:
	case <-time.After(5 * time.Second):
		w.cmd.Process.Kill()
		<-done
	}
	os.Remove(w.progress)
	if fi, err := os.Stat(w.errPath); err == nil && fi.Size() == 0 {
		os.Remove(w.errPath)
	}
}

// do sends one job and waits for the answer. err != nil means the worker died.
func (w *worker) do(j *job, caseTimeout time.Duration) (*shardResult, error) {
	b, _ := json.Marshal(j)
	if _, err := w.in.Write(append(b, '\n')); err != nil {
		return nil, err
	}
	type ans struct {
		line []byte
		err  error
	}
	ch := make(chan ans, 1)
	go func() {
		line, err := w.out.ReadBytes('\n')
		ch <- ans{line, err}
	}()
	var a ans
	if caseTimeout > 0 {
		// hang watchdog: the progress file must change at least once per caseTimeout
		t := time.NewTicker(caseTimeout)
		defer t.Stop()
		last := ""
	loop:
		for {
			select {
			case a = <-ch:
				break loop
			case <-t.C:
				cur, _ := os.ReadFile(w.progress)
				if string(cur) == last {
					w.cmd.Process.Kill()
					a = <-ch
					return nil, fmt.Errorf("hang: no progress for %s", caseTimeout)
				}
				last = string(cur)
			}
		}
	} else {
		a = <-ch
	}
	if a.err != nil {
		return nil, a.err
	}
	var r shardResult
	if err := json.Unmarshal(a.line, &r); err != nil {
		return nil, fmt.Errorf("bad worker answer: %v", err)
	}
	return &r, nil
}

func (w *worker) lastCase() []int {
	b, err := os.ReadFile(w.progress)
	if err != nil {
		return nil
	}
	line := string(b)
	if i := strings.IndexByte(line, '\n'); i >= 0 {
		line = line[:i]
	}
	if i := strings.IndexByte(line, ';'); i >= 0 {
		line = line[i+1:]
	}
	var out []int
	for _, f := range strings.Split(line, ",") {
		if f == "" {
			continue
		}
		n, err := strconv.Atoi(f)
		if err != nil {
			break
		}
		out = append(out, n)
	}
	return out
}

func (w *worker) stderrTail() string {
	b, _ := os.ReadFile(w.errPath)
	if len(b) > 6000 {
		b = b[:6000]
	}
	return string(b)
}

type knownFinding struct {
	Property string `json:"property"`
	Key      string `json:"key"`
	What     string `json:"what"`
}

func loadKnown(verifDir, prop string) map[string]string {
	out := map[string]string{}
	f, err := os.Open(filepath.Join(verifDir, "known_findings.jsonl"))
	if err != nil {
		return out
	}
	defer f.Close()
	sc := bufio.NewScanner(f)
	sc.Buffer(make([]byte, 1<<20), 1<<20)
	for sc.Scan() {
		line := strings.TrimSpace(sc.Text())
		if line == "" || !strings.HasPrefix(line, "{") {
			continue // "fixed: ..." lines suppress nothing
		}
		var k knownFinding
		if json.Unmarshal([]byte(line), &k) == nil && k.Property == prop && k.Key != "" {
			out[k.Key] = k.What
		}
	}
	return out
}

// Main is the entry point of every engine-E harness binary.
//
//	<bin> quick|thorough            explore
//	<bin> -replay <file>            re-run one recorded case without the explorer
//	<bin> -worker                   (internal)
func Main(cfg *Config) {
	// ./check holds the lock of this property on an inherited descriptor: it stays with the coordinator process
	// only, so that a worker or a pint process outliving the coordinator cannot keep the next run waiting.
	if fd, err := strconv.Atoi(os.Getenv("VERIF_LOCK_FD")); err == nil && fd > 2 {
		syscall.CloseOnExec(fd)
	}
	args := os.Args[1:]
	if len(args) >= 1 && args[0] == "-worker" {
		runWorker(cfg)
		return
	}
	verifDir := envOr("VERIF_DIR", "/verif")
	if len(args) >= 2 && (args[0] == "-replay" || args[0] == "--replay") {
		os.Exit(replay(cfg, args[1]))
	}
	tier := "quick"
	if len(args) >= 1 {
		tier = args[0]
	}
	if t := os.Getenv("VERIF_TIER"); t != "" && len(args) == 0 {
		tier = t
	}
	if tier != "quick" && tier != "thorough" {
		fmt.Fprintf(os.Stderr, "usage: %s quick|thorough | -replay <file>\n", os.Args[0])
		os.Exit(2)
	}
	seed, _ := strconv.Atoi(os.Getenv("VERIF_SEED"))
	start := time.Now()
	budget := 0
	if cfg.BudgetS != nil {
		budget = cfg.BudgetS(tier)
	}
	if b, err := strconv.Atoi(os.Getenv("VERIF_BUDGET_S")); err == nil && b > 0 {
		budget = b
	}
	var deadline time.Time
	if budget > 0 {
		deadline = start.Add(time.Duration(budget) * time.Second)
	}
	nw := runtime.NumCPU()
	if n, err := strconv.Atoi(os.Getenv("VERIF_WORKERS")); err == nil && n > 0 {
		nw = n
	}
	scratch := filepath.Join(verifDir, ".build", strings.ToLower(cfg.Property), "run")
	os.MkdirAll(scratch, 0o755)

	agg := &Aggregate{Keys: map[uint64]struct{}{}, Outcomes: map[string]int64{}, Stats: map[string]int64{}, Sets: map[string]map[string]struct{}{}, PerSpace: map[string]*SpaceAgg{}}
	var harnessErrs []string

	pool := make([]*worker, nw)
	for i := range pool {
		w, err := startWorker(i, scratch)
		if err != nil {
			fmt.Printf("HARNESS-ERROR property=%s cannot start worker: %v\n", cfg.Property, err)
			os.Exit(2)
		}
		pool[i] = w
	}
	caseTimeout := 120 * time.Second

	for _, sp := range cfg.Spaces {
		bound := sp.Bound(tier)
		sa := &SpaceAgg{Bound: bound, Complete: true}
		agg.PerSpace[sp.Name] = sa
		dl := int64(0)
		if !deadline.IsZero() {
			dl = deadline.UnixNano()
		}
		// dynamic work queue: a job explores a subtree depth first and, after MaxExecs executions,
		// hands the unexplored frontier back; the explored set does not depend on the cut.
		var qmu sync.Mutex
		qcond := sync.NewCond(&qmu)
		pending := [][]PrefixEntry{nil}
		inflight := 0
		stop := false
		var wg sync.WaitGroup
		for wi := range pool {
			wg.Add(1)
			go func(wi int) {
				defer wg.Done()
				for {
					qmu.Lock()
					for len(pending) == 0 && inflight > 0 && !stop {
						qcond.Wait()
					}
					if stop || len(pending) == 0 {
						qmu.Unlock()
						qcond.Broadcast()
						return
					}
					if !deadline.IsZero() && time.Now().After(deadline) {
						stop = true
						sa.Complete = false
						qmu.Unlock()
						qcond.Broadcast()
						return
					}
					// take from the front (shallow, large subtrees first)
					pre := pending[0]
					pending = pending[1:]
					inflight++
					maxExecs := int64(4000)
					if len(pending) < 4*nw {
						maxExecs = 48
					}
					if sa.Shards == 0 {
						maxExecs = 1
					}
					sa.Shards++
					qmu.Unlock()

					w := pool[wi]
					j := &job{Op: "subtree", Space: sp.Name, Prefix: pre, Bound: bound, Deadline: dl, Tier: tier, MaxExecs: maxExecs}
					r, err := w.do(j, caseTimeout)
					qmu.Lock()
					inflight--
					if err != nil {
						cr := crash{Space: sp.Name, Choices: w.lastCase(), Stderr: err.Error() + "\n" + w.stderrTail()}
						w.cmd.Process.Kill()
						w.cmd.Wait()
						agg.Crashes = append(agg.Crashes, cr)
						sa.Complete = false
						nwk, err2 := startWorker(wi+1000*len(agg.Crashes), scratch)
						if err2 != nil {
							harnessErrs = append(harnessErrs, "cannot restart worker: "+err2.Error())
							stop = true
							qmu.Unlock()
							qcond.Broadcast()
							return
						}
						pool[wi] = nwk
						if len(agg.Crashes) > 20 {
							stop = true
						}
						qmu.Unlock()
						qcond.Broadcast()
						continue
					}
					if r.HarnessErr != "" {
						harnessErrs = append(harnessErrs, sp.Name+": "+r.HarnessErr)
						stop = true
						qmu.Unlock()
						qcond.Broadcast()
						return
					}
					agg.merge(sp.Name, r)
					// frontier goes to the back, deepest (last pushed) first, to keep the queue short
					for i := len(r.Children) - 1; i >= 0; i-- {
						pending = append(pending, r.Children[i])
					}
					qmu.Unlock()
					qcond.Broadcast()
				}
			}(wi)
		}
		wg.Wait()
		if len(pending) > 0 {
			sa.Complete = false
		}
		if !sa.Complete {
			agg.Incomplete = append(agg.Incomplete, sp.Name)
		}
		if len(harnessErrs) > 0 {
			break
		}
	}

	// crashes
	for _, cr := range agg.Crashes {
		if cfg.CrashSig == "" {
			harnessErrs = append(harnessErrs, fmt.Sprintf("worker died in space %s at case %v:\n%s", cr.Space, cr.Choices, cr.Stderr))
			continue
		}
		site := "hang"
		if !strings.HasPrefix(cr.Stderr, "hang:") {
			site = panicSite(cr.Stderr)
		}
		agg.Viol = append(agg.Viol, foundViolation{Violation: Violation{Sig: cfg.CrashSig + ":" + site, What: "worker process died while running this case", Detail: map[string]any{"stderr": cr.Stderr}}, Space: cr.Space, Choices: cr.Choices})
	}

	var finishViol []Violation
	if cfg.Finish != nil && len(harnessErrs) == 0 {
		v, he := cfg.Finish(tier, agg)
		finishViol = v
		if he != "" {
			harnessErrs = append(harnessErrs, he)
		}
	}

	// group violations by signature, fewest deviations first
	sort.SliceStable(agg.Viol, func(i, j int) bool {
		if agg.Viol[i].Devs != agg.Viol[j].Devs {
			return agg.Viol[i].Devs < agg.Viol[j].Devs
		}
		return len(agg.Viol[i].Choices) < len(agg.Viol[j].Choices)
	})
	known := loadKnown(verifDir, cfg.Property)
	bySig := map[string][]foundViolation{}
	var sigs []string
	for _, v := range agg.Viol {
		if _, ok := bySig[v.Sig]; !ok {
			sigs = append(sigs, v.Sig)
		}
		bySig[v.Sig] = append(bySig[v.Sig], v)
	}
	newViolations := 0
	knownSeen := 0
	replayDir := filepath.Join(verifDir, "replays", cfg.Property)
	for _, sig := range sigs {
		vs := bySig[sig]
		if what, ok := known[sig]; ok {
			fmt.Printf("KNOWN-FINDING: property=%s %s [%s] (%d cases this run)\n", cfg.Property, what, sig, len(vs))
			knownSeen++
			continue
		}
		// confirm twice in fresh workers; an instance that does not reproduce (state left behind by an earlier
		// case of the same worker) does not speak for the signature: up to 8 instances are tried, fewest
		// deviations first
		v := vs[0]
		confirmed := 0
		for k := 0; k < len(vs) && k < 8 && confirmed < 2; k++ {
			v = vs[k]
			confirmed = func() int {
				confirmed := 0
				for try := 0; try < 2; try++ {
					w, err := startWorker(9000+try, scratch)
					if err != nil {
						break
					}
					pre := make([]PrefixEntry, len(v.Choices))
					for i, c := range v.Choices {
						pre[i] = PrefixEntry{C: c}
					}
					r, err := w.do(&job{Op: "one", Space: v.Space, Prefix: pre, Bound: -1, Tier: tier}, caseTimeout)
					if err != nil {
						if strings.HasPrefix(sig, cfg.CrashSig+":") && cfg.CrashSig != "" {
							confirmed++
						}
						w.cmd.Process.Kill()
						w.cmd.Wait()
						continue
					}
					for _, rv := range r.Viol {
						if rv.Sig == sig {
							confirmed++
							break
						}
					}
					w.stop()
				}
				return confirmed
			}()
		}
		if confirmed < 2 {
			harnessErrs = append(harnessErrs, fmt.Sprintf("violation %q at %v in space %s did not reproduce (%d/2): not reported as a violation", sig, v.Choices, v.Space, confirmed))
			continue
		}
		os.MkdirAll(replayDir, 0o755)
		h := sha1.Sum([]byte(sig))
		path := filepath.Join(replayDir, fmt.Sprintf("%x.json", h[:6]))
		rb, _ := json.MarshalIndent(map[string]any{
			"property": cfg.Property, "space": v.Space, "choices": v.Choices, "deviations": v.Devs,
			"signature": sig, "what": v.What, "detail": v.Detail, "input": v.Input, "cases_with_this_signature": len(vs), "tier": tier,
		}, "", " ")
		os.WriteFile(path, rb, 0o644)
		fmt.Printf("VIOLATION property=%s replay=%s\n", cfg.Property, path)
		fmt.Printf("  signature: %s\n  what: %s\n  cases: %d (first has %d deviations)\n", sig, v.What, len(vs), v.Devs)
		newViolations++
	}
	for _, v := range finishViol {
		if what, ok := known[v.Sig]; ok {
			fmt.Printf("KNOWN-FINDING: property=%s %s [%s]\n", cfg.Property, what, v.Sig)
			knownSeen++
			continue
		}
		os.MkdirAll(replayDir, 0o755)
		h := sha1.Sum([]byte(v.Sig))
		path := filepath.Join(replayDir, fmt.Sprintf("%x.json", h[:6]))
		rb, _ := json.MarshalIndent(map[string]any{"property": cfg.Property, "signature": v.Sig, "what": v.What, "detail": v.Detail, "aggregate": true, "tier": tier}, "", " ")
		os.WriteFile(path, rb, 0o644)
		fmt.Printf("VIOLATION property=%s replay=%s\n  signature: %s\n  what: %s\n", cfg.Property, path, v.Sig, v.What)
		newViolations++
	}
	for _, w := range pool {
		w.stop()
	}

	exhaustive := len(agg.Incomplete) == 0 && len(agg.Crashes) == 0
	cov := map[string]any{
		"evaluations":         agg.Execs,
		"distinct_nontrivial": len(agg.Keys),
		"rule":                cfg.Rule,
		"exhaustive":          exhaustive,
		"choice_points":       agg.Points,
		"max_depth":           agg.MaxDepth,
		"max_deviations_used": agg.MaxDev,
		"distinct_outcomes":   len(agg.Outcomes),
		"spaces":              agg.PerSpace,
		"skipped_invalid":     agg.Skipped,
		"trivial":             agg.Trivial,
		"workers":             nw,
	}
	if agg.Pruned > 0 {
		cov["state_cache_prunings"] = agg.Pruned
	}
	if len(agg.Incomplete) > 0 {
		cov["incomplete_spaces"] = agg.Incomplete
		cov["cap_hit"] = fmt.Sprintf("wall budget %ds", budget)
	}
	if len(agg.Outcomes) > 0 && len(agg.Outcomes) <= 40 {
		cov["outcomes"] = agg.Outcomes
	}
	if len(agg.Stats) > 0 {
		cov["counters"] = agg.Stats
	}
	for k, m := range agg.Sets {
		cov["distinct_"+k] = len(m)
	}
	var samples []any
	for i, s := range agg.Samples {
		if i >= 5 {
			break
		}
		samples = append(samples, s)
	}
	if len(samples) == 0 {
		samples = append(samples, "no non-trivial case was executed")
	}
	cov["samples"] = samples
	if cfg.Level == "model_checking" {
		if n, ok := agg.Sets["states"]; ok {
			cov["states"] = len(n)
		} else if n, ok := agg.Stats["states"]; ok {
			cov["states"] = n
		}
		if n, ok := agg.Stats["transitions"]; ok {
			cov["transitions"] = n
		}
		if n, ok := agg.Stats["traces_validated_against_impl"]; ok {
			cov["traces_validated_against_impl"] = n
		}
	}
	if cfg.Extra != nil {
		for k, v := range cfg.Extra(tier, agg) {
			cov[k] = v
		}
	}
	if cfg.Assumptions == nil {
		cfg.Assumptions = []string{}
	}
	ev := map[string]any{
		"property_id":         cfg.Property,
		"tier":                tier,
		"seed":                seed,
		"level":               cfg.Level,
		"coverage":            cov,
		"assumptions":         cfg.Assumptions,
		"wall_s":              time.Since(start).Seconds(),
		"violations":          newViolations,
		"known_findings_seen": knownSeen,
	}
	if len(harnessErrs) > 0 {
		ev["harness_errors"] = harnessErrs
	}
	eb, _ := json.MarshalIndent(ev, "", " ")
	os.MkdirAll(filepath.Join(verifDir, "evidence"), 0o755)
	os.WriteFile(filepath.Join(verifDir, "evidence", cfg.Property+".json"), append(eb, '\n'), 0o644)

	fmt.Printf("%s %s: executions=%d distinct=%d outcomes=%d max_depth=%d exhaustive=%v violations=%d known=%d wall=%.1fs\n",
		cfg.Property, tier, agg.Execs, len(agg.Keys), len(agg.Outcomes), agg.MaxDepth, exhaustive, newViolations, knownSeen, time.Since(start).Seconds())
	if len(harnessErrs) > 0 {
		for _, e := range harnessErrs {
			fmt.Printf("HARNESS-ERROR property=%s %s\n", cfg.Property, e)
		}
		if newViolations > 0 {
			os.Exit(1)
		}
		os.Exit(2)
	}
	if newViolations > 0 {
		os.Exit(1)
	}
}

func replay(cfg *Config, path string) int {
	b, err := os.ReadFile(path)
	if err != nil {
		fmt.Fprintln(os.Stderr, err)
		return 2
	}
	var rf struct {
		Space     string `json:"space"`
		Choices   []int  `json:"choices"`
		Signature string `json:"signature"`
		Tier      string `json:"tier"`
	}
	if err := json.Unmarshal(b, &rf); err != nil {
		fmt.Fprintln(os.Stderr, err)
		return 2
	}
	sp := cfg.space(rf.Space)
	if sp == nil {
		fmt.Fprintln(os.Stderr, "replay file has no per-execution space (aggregate violation?)")
		return 2
	}
	if rf.Tier == "" {
		rf.Tier = "quick"
	}
	if sp.Setup != nil {
		sp.Setup(rf.Tier)
	}
	r := &runner{space: sp, bound: -1, res: &shardResult{}, keys: map[uint64]struct{}{}}
	pre := make([]PrefixEntry, len(rf.Choices))
	for i, c := range rf.Choices {
		pre[i] = PrefixEntry{C: c}
	}
	c, cs := r.execute(pre, true)
	if r.res.HarnessErr != "" {
		fmt.Println("HARNESS-ERROR", r.res.HarnessErr)
		return 2
	}
	out, _ := json.MarshalIndent(map[string]any{"points": c.Points, "case": cs}, "", " ")
	fmt.Println(string(out))
	for _, v := range cs.Viol {
		if rf.Signature == "" || v.Sig == rf.Signature {
			fmt.Printf("VIOLATION property=%s replay=%s\n", cfg.Property, path)
			return 1
		}
	}
	fmt.Println("no violation reproduced")
	return 0
}
