package explore

import (
	"bufio"
	"encoding/base64"
	"encoding/binary"
	"encoding/json"
	"fmt"
	"hash/fnv"
	"os"
	"runtime/debug"
	"sort"
	"time"
)

// Violation is one property violation observed in one execution.
type Violation struct {
	// Sig is the root-cause signature: violations with equal Sig are one finding; the
	// known-findings file is keyed by it.
	Sig    string `json:"sig"`
	What   string `json:"what"`
	Detail any    `json:"detail,omitempty"`
}

// Case is what a body reports about one execution.
type Case struct {
	// Input describes the concrete case (JSON-able); used for samples and replay files.
	Input any `json:"input,omitempty"`
	// Key identifies the input for distinct counting; "" = the choice list.
	Key string `json:"-"`
	// Outcome is the observation class (distinct-outcome counting, a vacuity alarm).
	Outcome string `json:"outcome,omitempty"`
	// Trivial cases are executed and checked but not counted in distinct_nontrivial.
	Trivial bool `json:"trivial,omitempty"`
	// Skip marks an execution whose choices denote no case (filtered by a validity test).
	Skip bool        `json:"skip,omitempty"`
	Viol []Violation `json:"viol,omitempty"`
	// Stats are additive counters merged into the evidence (e.g. "states", "transitions").
	Stats map[string]int64 `json:"stats,omitempty"`
	// Sets are named sets of strings merged by union (e.g. distinct states seen across executions).
	Sets map[string][]string `json:"sets,omitempty"`
}

func (c *Case) Violate(sig, what string, detail any) {
	c.Viol = append(c.Viol, Violation{Sig: sig, What: what, Detail: detail})
}

func (c *Case) Count(name string, n int64) {
	if c.Stats == nil {
		c.Stats = map[string]int64{}
	}
	c.Stats[name] += n
}

func (c *Case) AddToSet(name, v string) {
	if c.Sets == nil {
		c.Sets = map[string][]string{}
	}
	c.Sets[name] = append(c.Sets[name], v)
}

// Body runs one execution. It must be a deterministic function of the chooser's answers.
type Body func(c *Chooser) *Case

// Space is one choice tree to enumerate.
type Space struct {
	Name string
	Body Body
	// Bound is the deviation bound for a tier ("quick"/"thorough"); <0 = unbounded.
	Bound func(tier string) int
	// Setup, if set, is run once per process before the first execution of this space.
	Setup func(tier string)
	// PanicIsViolation: a panic on the body's goroutine is a violation with this signature prefix
	// ("" = a panic is a harness error).
	PanicSig string
	// StateCache enables pruning on the state keys the body publishes through Chooser.NextKey.
	StateCache bool
}

// shardResult is what a worker reports for one job.
type shardResult struct {
	Execs      int64               `json:"execs"`
	Skipped    int64               `json:"skipped"`
	Points     int64               `json:"points"`
	MaxDepth   int                 `json:"max_depth"`
	MaxDev     int                 `json:"max_dev"`
	Trivial    int64               `json:"trivial"`
	Pruned     int64               `json:"pruned"`
	Keys       string              `json:"keys,omitempty"` // base64 of packed uint64 key hashes (non-trivial only)
	Outcomes   map[string]int64    `json:"outcomes,omitempty"`
	Stats      map[string]int64    `json:"stats,omitempty"`
	Sets       map[string][]string `json:"sets,omitempty"`
	Viol       []foundViolation    `json:"viol,omitempty"`
	Samples    []sample            `json:"samples,omitempty"`
	Children   [][]PrefixEntry     `json:"children,omitempty"` // expand jobs only
	Complete   bool                `json:"complete"`
	HarnessErr string              `json:"harness_err,omitempty"`
}

type foundViolation struct {
	Violation
	Space   string `json:"space"`
	Choices []int  `json:"choices"`
	Devs    int    `json:"devs"`
	Input   any    `json:"input,omitempty"`
}

type sample struct {
	Space   string `json:"space"`
	Choices []int  `json:"choices"`
	Input   any    `json:"input,omitempty"`
	Outcome string `json:"outcome,omitempty"`
}

type job struct {
	Op       string        `json:"op"` // "expand" | "subtree" | "one"
	Space    string        `json:"space"`
	Prefix   []PrefixEntry `json:"prefix"`
	Bound    int           `json:"bound"`
	Deadline int64         `json:"deadline"`  // unix nanos; 0 = none
	MaxExecs int64         `json:"max_execs"` // subtree jobs: after this many executions hand the rest of the frontier back
	Tier     string        `json:"tier"`
}

const maxViolPerShard = 50
const maxOutcomes = 5000

type runner struct {
	space    *Space
	bound    int
	deadline time.Time
	res      *shardResult
	keys     map[uint64]struct{}
	progress *os.File
	setSeen  map[string]map[string]struct{}
	nexec    int64
	cache    map[uint64]int // state key -> largest remaining budget it was expanded with
}

func hashKey(s string) uint64 {
	h := fnv.New64a()
	h.Write([]byte(s))
	return h.Sum64()
}

func choicesKey(pts []Point) uint64 {
	h := uint64(14695981039346656037)
	for _, p := range pts {
		h = (h ^ uint64(p.Choice+1)) * 1099511628211
	}
	return h
}

var (
	heartbeatFile *os.File
	heartbeatN    int64
)

// Heartbeat tells the hang watchdog that the case being executed is alive. A body whose single execution is a
// long search of its own (engine B) calls it from its loop; the first line of the progress file (the case) is
// left alone.
func Heartbeat() {
	if heartbeatFile != nil {
		heartbeatN++
		heartbeatFile.WriteAt([]byte(fmt.Sprintf("\nalive %d\n", heartbeatN)), 4200)
	}
}

// execute runs one execution for the given prefix and records it.
func (r *runner) execute(prefix []PrefixEntry, keepLabels bool) (c *Chooser, cs *Case) {
	c = &Chooser{prefix: prefix, KeepLabels: keepLabels}
	heartbeatFile = r.progress
	if r.progress != nil {
		var buf [4096]byte
		r.nexec++
		n := copy(buf[:], fmt.Sprintf("%d;", r.nexec))
		for _, e := range prefix {
			if n > 4080 {
				break
			}
			n += copy(buf[n:], fmt.Sprintf("%d,", e.C))
		}
		buf[n] = '\n'
		r.progress.WriteAt(buf[:n+1], 0)
	}
	func() {
		defer func() {
			if p := recover(); p != nil {
				if d, ok := p.(divergence); ok {
					cs = &Case{}
					r.res.HarnessErr = d.msg
					return
				}
				stack := string(debug.Stack())
				cs = &Case{}
				if r.space.PanicSig != "" {
					cs.Violate(r.space.PanicSig+":"+panicSite(stack), fmt.Sprintf("panic: %v", p), map[string]any{"panic": fmt.Sprint(p), "stack": stack})
				} else {
					r.res.HarnessErr = fmt.Sprintf("panic in harness body: %v\n%s", p, stack)
				}
			}
		}()
		cs = r.space.Body(c)
	}()
	if cs == nil {
		cs = &Case{Skip: true}
	}
	if len(c.Points) < len(prefix) && r.res.HarnessErr == "" {
		r.res.HarnessErr = fmt.Sprintf("replay divergence: body made %d choices but the prefix has %d", len(c.Points), len(prefix))
	}
	return c, cs
}

func (r *runner) record(c *Chooser, cs *Case) {
	res := r.res
	res.Points += int64(len(c.Points))
	if len(c.Points) > res.MaxDepth {
		res.MaxDepth = len(c.Points)
	}
	if d := c.Deviations(); d > res.MaxDev {
		res.MaxDev = d
	}
	for k, v := range cs.Stats {
		if res.Stats == nil {
			res.Stats = map[string]int64{}
		}
		res.Stats[k] += v
	}
	for k, vs := range cs.Sets {
		if r.setSeen == nil {
			r.setSeen = map[string]map[string]struct{}{}
		}
		m := r.setSeen[k]
		if m == nil {
			m = map[string]struct{}{}
			r.setSeen[k] = m
		}
		for _, v := range vs {
			m[v] = struct{}{}
		}
	}
	if cs.Skip {
		res.Skipped++
		return
	}
	res.Execs++
	if cs.Trivial {
		res.Trivial++
	} else {
		var k uint64
		if cs.Key != "" {
			k = hashKey(cs.Key)
		} else {
			k = choicesKey(c.Points)
		}
		r.keys[k] = struct{}{}
	}
	if cs.Outcome != "" {
		if res.Outcomes == nil {
			res.Outcomes = map[string]int64{}
		}
		if _, ok := res.Outcomes[cs.Outcome]; ok || len(res.Outcomes) < maxOutcomes {
			res.Outcomes[cs.Outcome]++
		}
	}
	if len(res.Samples) < 3 && !cs.Trivial && (len(res.Samples) == 0 || res.Execs%97 == 0) {
		res.Samples = append(res.Samples, sample{Space: r.space.Name, Choices: c.Choices(), Input: cs.Input, Outcome: cs.Outcome})
	}
	for _, v := range cs.Viol {
		if len(res.Viol) >= maxViolPerShard {
			// keep at most one more per new signature
			dup := false
			for _, o := range res.Viol {
				if o.Sig == v.Sig {
					dup = true
					break
				}
			}
			if dup {
				continue
			}
		}
		res.Viol = append(res.Viol, foundViolation{Violation: v, Space: r.space.Name, Choices: c.Choices(), Devs: c.Deviations(), Input: cs.Input})
	}
}

func children(c *Chooser, from int, bound int) [][]PrefixEntry {
	var out [][]PrefixEntry
	dev := 0
	for i := 0; i < from && i < len(c.Points); i++ {
		if !c.Points[i].Free && c.Points[i].Choice != 0 {
			dev++
		}
	}
	for i := from; i < len(c.Points); i++ {
		p := c.Points[i]
		cost := dev
		if !p.Free {
			cost++
		}
		if bound < 0 || cost <= bound {
			for alt := 1; alt < p.N; alt++ {
				pre := make([]PrefixEntry, i+1)
				for j := 0; j < i; j++ {
					pre[j] = PrefixEntry{C: c.Points[j].Choice, H: c.hashes[j]}
				}
				pre[i] = PrefixEntry{C: alt, H: c.hashes[i]}
				out = append(out, pre)
			}
		}
		if !p.Free && p.Choice != 0 {
			dev++
		}
	}
	return out
}

// subtree explores the execution at prefix and everything below it, depth first, with an explicit
// stack. After maxExecs executions (or at the deadline) the unexplored frontier is handed back so the
// coordinator can redistribute it: the set explored is independent of how the work was cut.
func (r *runner) subtree(prefix []PrefixEntry, maxExecs int64) (frontier [][]PrefixEntry) {
	stack := [][]PrefixEntry{prefix}
	var n int64
	for len(stack) > 0 {
		if r.res.HarnessErr != "" {
			return nil
		}
		if (maxExecs > 0 && n >= maxExecs) || (!r.deadline.IsZero() && n%16 == 0 && time.Now().After(r.deadline)) {
			return stack
		}
		pre := stack[len(stack)-1]
		stack = stack[:len(stack)-1]
		c, cs := r.execute(pre, false)
		if r.res.HarnessErr != "" {
			return nil
		}
		n++
		r.record(c, cs)
		ch := r.childrenCached(c, len(pre))
		for i := len(ch) - 1; i >= 0; i-- {
			stack = append(stack, ch[i])
		}
	}
	return nil
}

// childrenCached is children() with state caching: a point whose state key was already expanded with at
// least the remaining deviation budget contributes no alternatives, and neither does any later point of this
// execution (the earlier visit explored every continuation from that state).
func (r *runner) childrenCached(c *Chooser, from int) [][]PrefixEntry {
	if r.cache == nil {
		return children(c, from, r.bound)
	}
	var out [][]PrefixEntry
	dev := 0
	for i := 0; i < from && i < len(c.Points); i++ {
		if !c.Points[i].Free && c.Points[i].Choice != 0 {
			dev++
		}
	}
	for i := from; i < len(c.Points); i++ {
		p := c.Points[i]
		if k := c.keys[i]; k != 0 {
			remaining := 1 << 30
			if r.bound >= 0 {
				remaining = r.bound - dev
			}
			if seen, ok := r.cache[k]; ok && seen >= remaining {
				r.res.Pruned++
				break
			}
			r.cache[k] = remaining
		}
		cost := dev
		if !p.Free {
			cost++
		}
		if r.bound < 0 || cost <= r.bound {
			for alt := 1; alt < p.N; alt++ {
				pre := make([]PrefixEntry, i+1)
				for j := 0; j < i; j++ {
					pre[j] = PrefixEntry{C: c.Points[j].Choice, H: c.hashes[j]}
				}
				pre[i] = PrefixEntry{C: alt, H: c.hashes[i]}
				out = append(out, pre)
			}
		}
		if !p.Free && p.Choice != 0 {
			dev++
		}
	}
	return out
}

func (r *runner) finish() {
	if len(r.keys) > 0 {
		buf := make([]byte, 8*len(r.keys))
		i := 0
		for k := range r.keys {
			binary.LittleEndian.PutUint64(buf[i:], k)
			i += 8
		}
		r.res.Keys = base64.StdEncoding.EncodeToString(buf)
	}
	if len(r.setSeen) > 0 {
		r.res.Sets = map[string][]string{}
		for k, m := range r.setSeen {
			for v := range m {
				r.res.Sets[k] = append(r.res.Sets[k], v)
			}
			sort.Strings(r.res.Sets[k])
		}
	}
}

// panicSite extracts the first pint (non-harness, non-runtime) frame of a stack for signatures.
func panicSite(stack string) string {
	sc := bufio.NewScanner(stringsReader(stack))
	sawPanic := false
	for sc.Scan() {
		line := sc.Text()
		if !sawPanic {
			if len(line) >= 6 && line[:6] == "panic(" {
				sawPanic = true
			}
			continue
		}
		if len(line) > 0 && line[0] != '\t' && line[0] != ' ' {
			// function line
			fn := line
			if i := lastIndexByte(fn, '('); i > 0 {
				fn = fn[:i]
			}
			if hasPrefix(fn, "runtime.") || hasPrefix(fn, "runtime/") {
				continue
			}
			return fn
		}
	}
	return "unknown"
}

func runWorker(cfg *Config) {
	in := bufio.NewReaderSize(os.Stdin, 1<<20)
	out := bufio.NewWriter(os.Stdout)
	var progress *os.File
	if p := os.Getenv("VERIF_PROGRESS"); p != "" {
		progress, _ = os.OpenFile(p, os.O_CREATE|os.O_RDWR|os.O_TRUNC, 0o644)
	}
	setupDone := map[string]bool{}
	caches := map[string]map[uint64]int{}
	dec := json.NewDecoder(in)
	for {
		var j job
		if err := dec.Decode(&j); err != nil {
			return
		}
		sp := cfg.space(j.Space)
		res := &shardResult{}
		if sp == nil {
			res.HarnessErr = "unknown space " + j.Space
		} else {
			if !setupDone[sp.Name] {
				if sp.Setup != nil {
					sp.Setup(j.Tier)
				}
				setupDone[sp.Name] = true
			}
			r := &runner{space: sp, bound: j.Bound, res: res, keys: map[uint64]struct{}{}, progress: progress}
			if sp.StateCache && os.Getenv("VERIF_NO_STATE_CACHE") == "" {
				if caches[sp.Name] == nil {
					caches[sp.Name] = map[uint64]int{}
				}
				r.cache = caches[sp.Name]
			}
			if j.Deadline != 0 {
				r.deadline = time.Unix(0, j.Deadline)
			}
			switch j.Op {
			case "expand":
				c, cs := r.execute(j.Prefix, false)
				if res.HarnessErr == "" {
					r.record(c, cs)
					res.Children = children(c, len(j.Prefix), j.Bound)
				}
				res.Complete = true
			case "subtree":
				res.Children = r.subtree(j.Prefix, j.MaxExecs)
				res.Complete = true
			case "one":
				c, cs := r.execute(j.Prefix, true)
				if res.HarnessErr == "" {
					r.record(c, cs)
				}
				res.Complete = true
			}
			r.finish()
		}
		b, err := json.Marshal(res)
		if err != nil {
			b, _ = json.Marshal(&shardResult{HarnessErr: "cannot encode result: " + err.Error()})
		}
		out.Write(b)
		out.WriteByte('\n')
		out.Flush()
	}
}
