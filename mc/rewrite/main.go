// rewrite substitutes the scheduler shims of package rt for Go's synchronisation primitives in the given
// source files: sync.{Mutex,RWMutex,Cond,NewCond,Locker,WaitGroup} -> rt.*, channel types and operations ->
// *rt.Chan[T] methods, go statements -> rt.Go, context.WithCancel -> rt.WithCancel. It is purely syntactic,
// touches nothing else and fails loudly on any construct it cannot translate, because a blocking operation
// left unhooked would hang the harness or hide interleavings.
//
//	rewrite -rt <import path of rt> -skip Func1,Func2 -o <outfile> <infile>
package main

import (
	"flag"
	"fmt"
	"go/ast"
	"go/format"
	"go/parser"
	"go/token"
	"os"
	"sort"
	"strings"
)

type edit struct {
	start, end int
	text       string
}

type rewriter struct {
	src   []byte
	fset  *token.FileSet
	file  *ast.File
	edits []edit
	errs  []string
	chans map[string]bool
	recv2 map[*ast.UnaryExpr]bool
	skip  map[string]bool
	stats map[string]int
}

func (r *rewriter) off(p token.Pos) int { return r.fset.Position(p).Offset }

// textOf returns the source of [start,end) with the edits made inside it applied.
func (r *rewriter) textOf(start, end int) string {
	var in []edit
	for _, e := range r.edits {
		if e.start >= start && e.end <= end {
			in = append(in, e)
		}
	}
	sort.Slice(in, func(i, j int) bool { return in[i].start < in[j].start })
	var sb strings.Builder
	pos := start
	for _, e := range in {
		sb.Write(r.src[pos:e.start])
		sb.WriteString(e.text)
		pos = e.end
	}
	sb.Write(r.src[pos:end])
	return sb.String()
}

func (r *rewriter) node(n ast.Node) string { return r.textOf(r.off(n.Pos()), r.off(n.End())) }

func (r *rewriter) replace(start, end int, text string) {
	var keep []edit
	for _, e := range r.edits {
		if e.start >= start && e.end <= end {
			continue
		}
		if e.start < end && e.end > start {
			r.errs = append(r.errs, fmt.Sprintf("overlapping edits at offset %d", start))
		}
		keep = append(keep, e)
	}
	r.edits = append(keep, edit{start, end, text})
}

func (r *rewriter) errorf(n ast.Node, f string, a ...any) {
	r.errs = append(r.errs, fmt.Sprintf("%s: %s", r.fset.Position(n.Pos()), fmt.Sprintf(f, a...)))
}

func lastIdent(e ast.Expr) string {
	switch x := e.(type) {
	case *ast.Ident:
		return x.Name
	case *ast.SelectorExpr:
		return x.Sel.Name
	case *ast.ParenExpr:
		return lastIdent(x.X)
	}
	return ""
}

func isDoneCall(e ast.Expr) bool {
	c, ok := e.(*ast.CallExpr)
	if !ok {
		return false
	}
	s, ok := c.Fun.(*ast.SelectorExpr)
	return ok && s.Sel.Name == "Done" && len(c.Args) == 0
}

// collectChans finds the names that denote channels: struct fields and parameters of channel type and
// variables assigned from make(chan ...).
func (r *rewriter) collectChans() {
	ast.Inspect(r.file, func(n ast.Node) bool {
		switch x := n.(type) {
		case *ast.Field:
			if _, ok := x.Type.(*ast.ChanType); ok {
				for _, nm := range x.Names {
					r.chans[nm.Name] = true
				}
			}
		case *ast.AssignStmt:
			for i, rhs := range x.Rhs {
				if c, ok := rhs.(*ast.CallExpr); ok {
					if id, ok := c.Fun.(*ast.Ident); ok && id.Name == "make" && len(c.Args) > 0 {
						if _, ok := c.Args[0].(*ast.ChanType); ok && i < len(x.Lhs) {
							if nm := lastIdent(x.Lhs[i]); nm != "" {
								r.chans[nm] = true
							}
						}
					}
				}
			}
		case *ast.ValueSpec:
			if _, ok := x.Type.(*ast.ChanType); ok {
				for _, nm := range x.Names {
					r.chans[nm.Name] = true
				}
			}
		}
		return true
	})
}

func (r *rewriter) run() {
	r.collectChans()
	var stack []ast.Node
	skipDepth := 0
	syncRefs, syncReplaced := 0, 0
	ast.Inspect(r.file, func(n ast.Node) bool {
		if n != nil {
			stack = append(stack, n)
			if fd, ok := n.(*ast.FuncDecl); ok && r.skip[fd.Name.Name] {
				skipDepth++
			}
			if as, ok := n.(*ast.AssignStmt); ok && len(as.Lhs) == 2 && len(as.Rhs) == 1 {
				if u, ok := as.Rhs[0].(*ast.UnaryExpr); ok && u.Op == token.ARROW {
					r.recv2[u] = true
				}
			}
			if sel, ok := n.(*ast.SelectStmt); ok && skipDepth == 0 {
				for _, cl := range sel.Body.List {
					cc := cl.(*ast.CommClause)
					if cc.Comm == nil {
						continue
					}
					okc := false
					switch c := cc.Comm.(type) {
					case *ast.ExprStmt:
						if u, ok := c.X.(*ast.UnaryExpr); ok && u.Op == token.ARROW && isDoneCall(u.X) {
							okc = true
						}
					case *ast.AssignStmt:
						if len(c.Rhs) == 1 {
							if u, ok := c.Rhs[0].(*ast.UnaryExpr); ok && u.Op == token.ARROW && isDoneCall(u.X) {
								okc = true
							}
						}
					}
					if !okc {
						r.errorf(cc, "select with a communication other than <-X.Done() cannot be translated")
					}
				}
			}
			return true
		}
		// leaving a node: post-order processing
		cur := stack[len(stack)-1]
		stack = stack[:len(stack)-1]
		if fd, ok := cur.(*ast.FuncDecl); ok && r.skip[fd.Name.Name] {
			skipDepth--
			return true
		}
		if skipDepth > 0 {
			return true
		}
		switch x := cur.(type) {
		case *ast.SelectorExpr:
			if id, ok := x.X.(*ast.Ident); ok && id.Name == "sync" && id.Obj == nil {
				syncRefs++
				switch x.Sel.Name {
				case "Mutex", "RWMutex", "Cond", "NewCond", "Locker", "WaitGroup":
					r.replace(r.off(x.Pos()), r.off(x.End()), "rt."+x.Sel.Name)
					syncReplaced++
					r.stats["sync."+x.Sel.Name]++
				}
			}
			if id, ok := x.X.(*ast.Ident); ok && id.Name == "context" && x.Sel.Name == "WithCancel" {
				r.replace(r.off(x.Pos()), r.off(x.End()), "rt.WithCancel")
				r.stats["context.WithCancel"]++
			}
		case *ast.ChanType:
			r.replace(r.off(x.Pos()), r.off(x.End()), "*rt.Chan["+r.node(x.Value)+"]")
			r.stats["chan type"]++
		case *ast.CallExpr:
			if id, ok := x.Fun.(*ast.Ident); ok {
				switch {
				case id.Name == "make" && len(x.Args) > 0:
					if ct, ok := x.Args[0].(*ast.ChanType); ok {
						n := "0"
						if len(x.Args) > 1 {
							n = r.node(x.Args[1])
						}
						r.replace(r.off(x.Pos()), r.off(x.End()), "rt.NewChan["+r.node(ct.Value)+"]("+n+")")
						r.stats["make(chan)"]++
					}
				case id.Name == "close" && len(x.Args) == 1:
					r.replace(r.off(x.Pos()), r.off(x.End()), r.node(x.Args[0])+".Close()")
					r.stats["close"]++
				}
			}
		case *ast.UnaryExpr:
			if x.Op == token.ARROW {
				if isDoneCall(x.X) {
					return true // receive on a context's Done channel: a real channel, left alone
				}
				m := ".Recv()"
				if r.recv2[x] {
					m = ".Recv2()"
				}
				r.replace(r.off(x.Pos()), r.off(x.End()), r.node(x.X)+m)
				r.stats["recv"]++
			}
		case *ast.SendStmt:
			r.replace(r.off(x.Pos()), r.off(x.End()), r.node(x.Chan)+".Send("+r.node(x.Value)+")")
			r.stats["send"]++
		case *ast.RangeStmt:
			nm := lastIdent(x.X)
			if x.Value == nil && nm != "" && r.chans[nm] {
				key := "_"
				if x.Key != nil {
					key = r.node(x.Key)
				}
				ch := r.node(x.X)
				okv := "ok__" + nm
				hdr := fmt.Sprintf("for %s, %s := %s.Recv2(); %s; %s, %s = %s.Recv2() ", key, okv, ch, okv, key, okv, ch)
				r.replace(r.off(x.Pos()), r.off(x.Body.Lbrace), hdr)
				r.stats["range chan"]++
			}
		case *ast.GoStmt:
			fl, ok := x.Call.Fun.(*ast.FuncLit)
			if !ok || len(x.Call.Args) != 0 || len(fl.Type.Params.List) != 0 {
				r.errorf(x, "go statement that is not `go func() {...}()` cannot be translated")
				return true
			}
			r.replace(r.off(x.Pos()), r.off(x.End()), "rt.Go("+r.node(fl)+")")
			r.stats["go"]++
		}
		return true
	})
	if syncRefs > 0 && syncRefs == syncReplaced {
		// the file no longer uses package sync: drop the import
		for _, d := range r.file.Decls {
			gd, ok := d.(*ast.GenDecl)
			if !ok || gd.Tok != token.IMPORT {
				continue
			}
			for _, sp := range gd.Specs {
				imp := sp.(*ast.ImportSpec)
				if imp.Path.Value != `"sync"` {
					continue
				}
				if len(gd.Specs) == 1 {
					r.replace(r.off(gd.Pos()), r.off(gd.End()), "")
				} else {
					r.replace(r.off(imp.Pos()), r.off(imp.End()), "")
				}
			}
		}
	}
}

func main() {
	rtPath := flag.String("rt", "github.com/cloudflare/pint/verifharness/rt", "import path of the scheduler runtime")
	skip := flag.String("skip", "", "comma separated function names to leave untouched")
	out := flag.String("o", "", "output file")
	flag.Parse()
	if flag.NArg() != 1 || *out == "" {
		fmt.Fprintln(os.Stderr, "usage: rewrite [-rt path] [-skip F1,F2] -o out.go in.go")
		os.Exit(2)
	}
	src, err := os.ReadFile(flag.Arg(0))
	if err != nil {
		fmt.Fprintln(os.Stderr, err)
		os.Exit(2)
	}
	fset := token.NewFileSet()
	f, err := parser.ParseFile(fset, flag.Arg(0), src, parser.ParseComments)
	if err != nil {
		fmt.Fprintln(os.Stderr, err)
		os.Exit(2)
	}
	r := &rewriter{src: src, fset: fset, file: f, chans: map[string]bool{}, recv2: map[*ast.UnaryExpr]bool{}, skip: map[string]bool{}, stats: map[string]int{}}
	for _, s := range strings.Split(*skip, ",") {
		if s != "" {
			r.skip[s] = true
		}
	}
	r.run()
	if len(r.errs) > 0 {
		for _, e := range r.errs {
			fmt.Fprintln(os.Stderr, "rewrite:", e)
		}
		os.Exit(1)
	}
	total := 0
	for _, n := range r.stats {
		total += n
	}
	text := r.textOf(0, len(src))
	if total > 0 {
		// add the runtime import after the package clause
		pkgEnd := fset.Position(f.Name.End()).Offset
		// offsets shift with edits before pkgEnd: there are none (package clause comes first)
		text = text[:pkgEnd] + "\n\nimport rt \"" + *rtPath + "\"\n" + text[pkgEnd:]
	}
	formatted, err := format.Source([]byte(text))
	if err != nil {
		fmt.Fprintln(os.Stderr, "rewrite: result does not parse:", err)
		os.WriteFile(*out+".broken", []byte(text), 0o644)
		os.Exit(1)
	}
	if err := os.WriteFile(*out, formatted, 0o644); err != nil {
		fmt.Fprintln(os.Stderr, err)
		os.Exit(2)
	}
	var keys []string
	for k := range r.stats {
		keys = append(keys, k)
	}
	sort.Strings(keys)
	var parts []string
	for _, k := range keys {
		parts = append(parts, fmt.Sprintf("%s=%d", k, r.stats[k]))
	}
	fmt.Fprintf(os.Stderr, "rewrite %s: %s\n", flag.Arg(0), strings.Join(parts, " "))
}
