#!/usr/bin/env python3
"""Regenerates MANIFEST.json from scripts/manifest_src.json (checks that exist) + properties.jsonl
(everything else goes to not_applicable with reason 'check not built yet' unless a reason is given)."""
import json, os
V = os.path.dirname(os.path.dirname(os.path.abspath(__file__)))
src = json.load(open(os.path.join(V, "scripts", "manifest_src.json")))
props = [json.loads(l)["id"] for l in open(os.path.join(V, "properties.jsonl")) if l.strip()]
checks = []
claimed = set()
for c in src["checks"]:
    pid = c["property_id"]
    claimed.add(pid)
    lid = pid.lower()
    d = {
        "property_id": pid,
        "quick_cmd": f"./check {lid} quick",
        "thorough_cmd": f"./check {lid} thorough",
        "evidence_file": f"/verif/evidence/{pid}.json",
        "replay_cmd_template": f"./check {lid} --replay {{path}}",
        "engine": c.get("engine", "E"),
        "level_claimed": {"category": c["category"], "text": c["text"], "design_ref": c.get("design_ref", f"DESIGN.md §2 {pid}")},
        "level_note": c["note"],
        "technique": c["technique"],
    }
    checks.append(d)
na = []
for p in props:
    if p not in claimed:
        na.append({"property_id": p, "reason": src.get("not_applicable", {}).get(p, "check not built yet (work in progress; the design in DESIGN.md covers it)")})
m = {
    "version": 1,
    "setup_cmd": "./scripts/setup.sh",
    "hooks": {
        "guard": "verif",
        "enable": "go build -tags verif -overlay <generated> (scripts/build.sh): all instrumentation is supplied as overlay files from /verif; /repo carries no hook commits",
        "baseline_off_cmd": "cd /repo && go test -mod=mod -vet=off -count=1 -timeout 25m ./...",
        "source_commits": src.get("source_commits", []),
        "add_only": True,
    },
    "engines": src["engines"],
    "checks": checks,
    "notes": src.get("notes", ""),
    "not_applicable": na,
}
json.dump(m, open(os.path.join(V, "MANIFEST.json"), "w"), indent=1)
print("checks:", len(checks), "not_applicable:", len(na))
