#!/bin/bash
# seeds_all.sh [tier] [ids...]: apply every archived seeded change (seeded/<ID>[_n]/) to /repo in turn, run the
# check of its property (quick by default) and report whether it was caught (exit 1 + VIOLATION line). /repo is
# always reverted. Writes seeded/DETECTION.txt. Not a registered check: it is the detection regression of the
# machinery itself.
cd "$(dirname "$0")/.."
tier="${1:-quick}"; shift
sel="$*"
out=seeded/DETECTION.txt
[ -z "$sel" ] && : > "$out.new"
for d in seeded/C*/; do
  name=$(basename "$d"); ID=${name%%_*}; id=$(echo "$ID" | tr A-Z a-z)
  if [ -n "$sel" ] && ! echo " $sel " | grep -q " $name "; then continue; fi
  p="$d/patch.diff"
  [ -f "$d/patch_rebased.diff" ] && p="$d/patch_rebased.diff"
  ls "$d" | grep -q '^patch_rebased_on' && p="$d/$(ls "$d" | grep '^patch_rebased_on' | head -1)"
  p="$(pwd)/$p"
  if ! git -C /repo apply --check "$p" 2>/dev/null; then echo "$name patch-does-not-apply" | tee -a "$out.new"; continue; fi
  git -C /repo apply "$p"
  log=$(mktemp)
  ./check "$id" "$tier" > "$log" 2>&1; rc=$?
  git -C /repo checkout -- . ; git -C /repo clean -fdq
  nv=$(grep -c '^VIOLATION' "$log")
  sig=$(grep -m1 '^  signature:' "$log" | cut -c1-120)
  if [ $rc -eq 1 ] && [ "$nv" -gt 0 ]; then echo "$name caught by $id $tier ($nv signatures) $sig" | tee -a "$out.new"
  else echo "$name MISSED by $id $tier (exit=$rc)" | tee -a "$out.new"; fi
  rm -f "$log"
done
[ -z "$sel" ] && mv "$out.new" "$out"
exit 0
