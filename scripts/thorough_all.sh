#!/bin/bash
# thorough_all.sh [ids...]: run the thorough tier of the given (default: all) checks one after the other and
# print their verdict lines. Meant for `vp run --with-repo`: uses $VP_RUN_REPO as the repository when set.
cd "$(dirname "$0")/.."
export VERIF_DIR="$(pwd)"
[ -n "${VP_RUN_REPO:-}" ] && export VERIF_REPO="$VP_RUN_REPO"
ids="$*"
[ -z "$ids" ] && ids=$(ls harness | grep -E '^c[0-9]+$' | grep -v c00)
for id in $ids; do
  start=$(date +%s)
  ./check "$id" thorough > "thorough_$id.log" 2>&1
  rc=$?
  echo "== $id thorough exit=$rc wall=$(( $(date +%s) - start ))s"
  grep -E "^VIOLATION|signature:|^KNOWN-FINDING|^HARNESS-ERROR|^C[0-9]+ thorough" "thorough_$id.log" | cut -c1-260
done
