#!/bin/bash
# build_pint.sh [-race] -> prints path of the real pint binary built from the current tree (no overlay, no tags)
set -eu
. "$(dirname "$0")/env.sh"
B="$VERIF_DIR/.build/pint"
mkdir -p "$B"
# several checks share this binary: one build at a time; go build leaves an up-to-date binary untouched, so a
# check that is executing it is not disturbed by another check's build
exec 8>"$VERIF_DIR/.build/pint.lock"
flock 8
cp "$VERIF_REPO/go.mod" "$B/go.mod"; cp "$VERIF_REPO/go.sum" "$B/go.sum"
out="$B/pint"
flags=()
if [ "${1:-}" = "-race" ]; then flags+=(-race); out="$B/pint-race"; fi
( cd "$VERIF_REPO" && go build -modfile="$B/go.mod" "${flags[@]}" -o "$out" ./cmd/pint ) 1>&2
echo "$out"
