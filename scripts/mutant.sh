#!/bin/bash
# mutant.sh <patch> <id> [tier]: apply a property-breaking patch to /repo, run the check, always revert.
set -u
patch="$(realpath "$1")"; id="$2"; tier="${3:-quick}"
cd /repo || exit 2
if [ -n "$(git status --porcelain)" ]; then echo "repo not clean"; exit 2; fi
git apply "$patch" || { echo "patch does not apply"; exit 2; }
trap 'git -C /repo checkout -- . ; git -C /repo clean -fdq' EXIT
cd /verif && ./check "$id" "$tier"
rc=$?
echo "mutant exit=$rc"
exit $rc
