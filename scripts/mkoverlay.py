#!/usr/bin/env python3
"""Compute a go build overlay mapping files under /verif into virtual paths of the pint module.

  mc/<pkg>/*.go            -> $REPO/verifharness/<pkg>/
  lib/<pkg>/*.go           -> $REPO/verifharness/lib/<pkg>/
  harness/<id>/*.go        -> $REPO/verifharness/<id>/
  inpkg/<pkgpath>/*.go     -> $REPO/<pkgpath>/            (files added to pint packages, //go:build verif)
  extra "replace" pairs given on the command line: --replace <repo-rel-path>=<file>

/repo is never written. Output: overlay JSON on stdout.
"""
import json, os, sys

def main():
    verif = os.environ.get("VERIF_DIR", "/verif")
    repo = os.environ.get("VERIF_REPO", "/repo")
    rep = {}
    def add_tree(src, dst):
        if not os.path.isdir(src):
            return
        for root, dirs, files in os.walk(src):
            for f in files:
                if f.endswith(".go") or f.endswith(".s"):
                    rel = os.path.relpath(os.path.join(root, f), src)
                    rep[os.path.join(dst, rel)] = os.path.join(root, f)
    add_tree(os.path.join(verif, "mc"), os.path.join(repo, "verifharness"))
    add_tree(os.path.join(verif, "lib"), os.path.join(repo, "verifharness", "lib"))
    add_tree(os.path.join(verif, "harness"), os.path.join(repo, "verifharness"))
    add_tree(os.path.join(verif, "inpkg"), repo)
    args = sys.argv[1:]
    i = 0
    while i < len(args):
        if args[i] == "--replace":
            k, v = args[i + 1].split("=", 1)
            rep[os.path.join(repo, k)] = v
            i += 2
        else:
            raise SystemExit("unknown arg " + args[i])
    json.dump({"Replace": rep}, sys.stdout, indent=1)

main()
