# sourced by every script: offline Go environment (do NOT set GOSUMDB=off / GOTOOLCHAIN=local: /repo's
# go.mod selects the cached go1.24 toolchain and the switch needs the checksum verification path).
export GOFLAGS=-mod=mod GOPROXY=off
export VERIF_DIR="${VERIF_DIR:-/verif}"
export VERIF_REPO="${VERIF_REPO:-/repo}"
