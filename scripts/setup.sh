#!/bin/bash
# Run once after a fresh restore (offline): warm the Go build cache by building every harness.
set -u
cd "$(dirname "$0")/.."
. scripts/env.sh
rc=0
for d in harness/c*/; do
  id=$(basename "$d")
  [ "$id" = c00 ] && continue
  scripts/build.sh "$id" >/dev/null || rc=1
done
exit $rc
