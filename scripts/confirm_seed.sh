#!/bin/bash
# confirm_seed.sh <lower id> [suffix]: confirm a sub-agent's seeded change in its scratch worktree /tmp/wt/<id><suffix>:
# demo fails with the patch, passes without it, the repository's suite passes with the patch. Then archive it under
# /verif/seeded/<ID><suffix>/ and remove the worktree.
set -u
id="$1"; sfx="${2:-}"
wt="/tmp/wt/$id$sfx"; out="$wt/verif_out"
ID=$(echo "$id" | tr a-z A-Z)
export GOFLAGS=-mod=mod GOPROXY=off
cd "$wt" || exit 2
# restore demo files held back by an earlier attempt
if [ -d /tmp/wt/hold_$id$sfx ]; then cp -r /tmp/wt/hold_$id$sfx/. "$wt/"; rm -rf /tmp/wt/hold_$id$sfx; fi
git apply --check -R "$out/patch.diff" 2>/dev/null || git apply "$out/patch.diff"
demo=$(grep -v "^#" "$out/demo_cmd.txt" | grep -v "^[[:space:]]*$" | head -1)
log="/tmp/wt/confirm_$id$sfx.log"; : > "$log"
echo "== demo with patch (must fail)" >> "$log"
( eval "$demo" ) >> "$log" 2>&1; with=$?
git apply -R "$out/patch.diff" >> "$log" 2>&1 || { echo "cannot revert patch"; exit 2; }
echo "== demo without patch (must pass)" >> "$log"
( eval "$demo" ) >> "$log" 2>&1; without=$?
git apply "$out/patch.diff" >> "$log" 2>&1
# the suite is run without the demo test present
mkdir -p /tmp/wt/hold_$id$sfx
for f in $(git status --porcelain | grep '^??' | awk '{print $2}' | grep -v verif_out); do mkdir -p /tmp/wt/hold_$id$sfx/$(dirname $f); mv "$f" /tmp/wt/hold_$id$sfx/$f; done
echo "== suite with patch (must pass)" >> "$log"
suite=1
for try in 1 2 3; do
  unshare -n sh -c "ip link set lo up; go test -vet=off -count=1 -timeout 25m \$(go list ./... | grep -v verif_out)" > "$log.suite" 2>&1 && { suite=0; break; }
  # retry only the failing packages (fixed ports / timing make some script tests flaky under load)
  fails=$(grep '^FAIL' "$log.suite" | awk '{print $2}' | grep github | sort -u)
  ok=1; for p in $fails; do unshare -n sh -c "ip link set lo up; go test -vet=off -count=1 $p" >> "$log" 2>&1 || ok=0; done
  [ $ok = 1 ] && { suite=0; break; }
done
cat "$log.suite" >> "$log"
echo "demo_with_patch_exit=$with demo_without_patch_exit=$without suite_with_patch_exit=$suite" | tee -a "$log"
if [ $with -ne 0 ] && [ $without -eq 0 ] && [ $suite -eq 0 ]; then
  d="/verif/seeded/$ID$sfx"; mkdir -p "$d"
  cp "$out/patch.diff" "$d/patch.diff"
  cp -r /tmp/wt/hold_$id$sfx/. "$d/demo/" 2>/dev/null || mkdir -p "$d/demo"
  cp "$out/demo_cmd.txt" "$d/demo_cmd.txt"
  python3 - "$out/meta.json" "$d/meta.json" "$with" "$without" "$suite" <<'PY'
import json,sys
try: m=json.load(open(sys.argv[1]))
except Exception as e: m={"summary":"(agent meta unreadable: %s)"%e}
m["confirmed_by_me"]={"demo_with_patch_exit":int(sys.argv[3]),"demo_without_patch_exit":int(sys.argv[4]),"suite_with_patch_exit":int(sys.argv[5]),
 "how":"scripts/confirm_seed.sh: ran the demo with the patch (fails), reverted the patch (passes), re-applied and ran the full go test ./... without the demo file (passes)"}
json.dump(m,open(sys.argv[2],"w"),indent=1)
PY
  echo "CONFIRMED -> $d"
else
  echo "NOT CONFIRMED (see $log)"
fi
