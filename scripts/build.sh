#!/bin/bash
# build.sh <lower-case id> [extra go build flags...]  -> prints path of the harness binary.
# Harness source: $VERIF_DIR/harness/<id>; compiled inside the pint module through an overlay.
set -eu
. "$(dirname "$0")/env.sh"
id="$1"; shift
B="$VERIF_DIR/.build/$id"
mkdir -p "$B/bin"
# builds of one harness are serialised, and wait for a running check of that harness (see ./check)
if [ "${VERIF_LOCK_HELD:-}" != "$id" ]; then
  exec 9>"$VERIF_DIR/.build/$id.lock"
  flock 9
  export VERIF_LOCK_HELD="$id"
fi
cp "$VERIF_REPO/go.mod" "$B/go.mod"
cp "$VERIF_REPO/go.sum" "$B/go.sum"
ov_args=()
if [ -x "$VERIF_DIR/harness/$id/prebuild.sh" ]; then
  # a harness may generate rewritten copies of repo files (engine S); it prints --replace args
  mapfile -t ov_args < <("$VERIF_DIR/harness/$id/prebuild.sh" "$B")
fi
python3 "$VERIF_DIR/scripts/mkoverlay.py" "${ov_args[@]}" > "$B/overlay.json"
target="./verifharness/$id"
if [ -f "$VERIF_DIR/harness/$id/target" ]; then target=$(cat "$VERIF_DIR/harness/$id/target"); fi
( cd "$VERIF_REPO" && go build -modfile="$B/go.mod" -overlay="$B/overlay.json" -tags verif "$@" -o "$B/bin/$id" "$target" ) 1>&2
echo "$B/bin/$id"
