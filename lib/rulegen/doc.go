// Package rulegen generates Prometheus rule documents from a Chooser: a valid skeleton by default,
// with an ordered catalogue of deviations at every site (simplest first).
package rulegen

import (
	"fmt"
	"strings"

	"github.com/cloudflare/pint/verifharness/explore"
)

type w struct {
	b strings.Builder
}

func (w *w) line(indent int, s string) {
	w.b.WriteString(strings.Repeat(" ", indent))
	w.b.WriteString(s)
	w.b.WriteByte('\n')
}

// scalar renders a string value in the chosen style after "key:" at the given indentation.
// style: 0 plain, 1 single-quoted, 2 double-quoted, 3 literal block, 4 folded block
func (w *w) kv(indent int, key, val string, style int) {
	switch style {
	case 1:
		w.line(indent, fmt.Sprintf("%s: '%s'", key, strings.ReplaceAll(val, "'", "''")))
	case 2:
		w.line(indent, fmt.Sprintf("%s: %q", key, val))
	case 3:
		w.line(indent, key+": |")
		w.line(indent+2, val)
	case 4:
		w.line(indent, key+": >-")
		w.line(indent+2, val)
	default:
		w.line(indent, key+": "+val)
	}
}

// Doc describes what was generated (for samples and signatures).
type Doc struct {
	Text       string
	Deviations []string
}

type gen struct {
	c     *explore.Chooser
	w     *w
	devs  []string
	style int
}

func (g *gen) choose(site string, opts ...string) int {
	n := g.c.Choose(len(opts), site)
	if n != 0 {
		g.devs = append(g.devs, site+"="+opts[n])
	}
	return n
}

// Semantic generates a strict-layout document with semantic deviations (C01/C02).
func Semantic(c *explore.Chooser) Doc {
	g := &gen{c: c, w: &w{}}
	g.style = g.choose("style", "plain", "single", "double", "literal", "folded")
	top := g.choose("top", "groups", "misspelt", "dup-groups", "extra-key", "scalar", "null", "seq-of-scalars", "doc-is-list", "empty", "two-docs", "map", "leading-doc-marker", "nonstring-key")
	ngroups := 1 + g.c.Choose(2, "ngroups")
	if ngroups == 2 {
		g.devs = append(g.devs, "ngroups=2")
	}
	switch top {
	case 4:
		g.w.line(0, "groups: abc")
		return g.done()
	case 5:
		g.w.line(0, "groups:")
		return g.done()
	case 6:
		g.w.line(0, "groups: [a, b]")
		return g.done()
	case 8:
		return g.done()
	case 10:
		g.w.line(0, "groups: {}")
		return g.done()
	}
	base := 0
	switch top {
	case 1:
		g.w.line(0, "group:")
	case 7:
		g.w.line(0, "- groups:")
		base = 2
	case 11:
		g.w.line(0, "---")
		g.w.line(0, "groups:")
	case 12:
		g.w.line(0, "1:")
	default:
		g.w.line(0, "groups:")
	}
	for gi := 0; gi < ngroups; gi++ {
		g.group(base, gi)
	}
	switch top {
	case 2:
		g.w.line(base, "groups:")
		g.w.line(base, "- name: other")
		g.w.line(base+2, "rules: []")
	case 3:
		g.w.line(base, "foo: bar")
	case 9:
		g.w.line(0, "---")
		g.w.line(0, "groups:")
		g.w.line(0, "- name: second")
		g.w.line(2, "rules:")
		g.w.line(2, "- record: second:rule")
		g.w.line(4, "expr: up")
	}
	return g.done()
}

func (g *gen) done() Doc {
	return Doc{Text: g.w.b.String(), Deviations: g.devs}
}

func (g *gen) group(base, gi int) {
	site := fmt.Sprintf("g%d.", gi)
	first := true
	item := func(s string) {
		if first {
			g.w.line(base, "- "+s)
			first = false
		} else {
			g.w.line(base+2, s)
		}
	}
	name := fmt.Sprintf("group%d", gi)
	nm := 0
	if gi == 1 {
		nm = g.choose(site+"name", "valid", "missing", "empty", "int", "null", "dup-key", "list", "same-as-first", "valid-after-rules")
	} else {
		nm = g.choose(site+"name", "valid", "missing", "empty", "int", "null", "dup-key", "list", "valid-after-rules")
	}
	// key order is free in YAML: the name may come after the rules
	nameLate := (gi == 1 && nm == 8) || (gi != 1 && nm == 7)
	switch nm {
	case 0:
		item("name: " + name)
	case 1:
	case 2:
		item(`name: ""`)
	case 3:
		item("name: 123")
	case 4:
		item("name:")
	case 5:
		item("name: " + name)
		item("name: " + name + "b")
	case 6:
		item("name: [a]")
	case 7:
		if gi == 1 {
			item("name: group0")
		}
	}
	extra := g.choose(site+"extra", "none", "unknown-key", "interval-ok", "interval-bad", "interval-int", "query_offset-ok", "query_offset-bad",
		"limit-ok", "limit-string", "limit-negative", "labels-ok", "labels-scalar", "labels-badname", "labels-__name__", "labels-intvalue",
		"labels-dupkey", "partial_response_strategy", "interval-dup", "limit-float", "labels-null", "labels-list", "interval-null", "interval-empty",
		"labels-boolvalue", "labels-nullvalue", "labels-spacename", "limit-null", "query_offset-int", "interval-zero",
		"limit-dup-zero-first", "interval-dup-zero-first", "query_offset-dup-zero-first", "limit-dup", "labels-dup-empty-first", "labels-ok-after-rules")
	switch extra {
	case 1:
		item("foo: 1")
	case 2:
		item("interval: 1m")
	case 3:
		item("interval: abc")
	case 4:
		item("interval: 60")
	case 5:
		item("query_offset: 1m")
	case 6:
		item("query_offset: xyz")
	case 7:
		item("limit: 5")
	case 8:
		item(`limit: "5"`)
	case 9:
		item("limit: -1")
	case 10:
		item("labels:")
		g.w.line(base+4, "team: a")
	case 11:
		item("labels: abc")
	case 12:
		item("labels:")
		g.w.line(base+4, `"a-b": x`)
	case 13:
		item("labels:")
		g.w.line(base+4, "__name__: x")
	case 14:
		item("labels:")
		g.w.line(base+4, "team: 1")
	case 15:
		item("labels:")
		g.w.line(base+4, "team: a")
		g.w.line(base+4, "team: b")
	case 16:
		item("partial_response_strategy: warn")
	case 17:
		item("interval: 1m")
		item("interval: 2m")
	case 18:
		item("limit: 1.5")
	case 19:
		item("labels:")
	case 20:
		item("labels: [a]")
	case 21:
		item("interval:")
	case 22:
		item(`interval: ""`)
	case 23:
		item("labels:")
		g.w.line(base+4, "team: true")
	case 24:
		item("labels:")
		g.w.line(base+4, "team:")
	case 25:
		item("labels:")
		g.w.line(base+4, `"a b": x`)
	case 26:
		item("limit:")
	case 27:
		item("query_offset: 5")
	case 28:
		item("interval: 0s")
	case 29:
		item("limit: 0")
		item("limit: 5")
	case 30:
		item("interval: 0s")
		item("interval: 1m")
	case 31:
		item("query_offset: 0s")
		item("query_offset: 1m")
	case 32:
		item("limit: 5")
		item("limit: 6")
	case 33:
		item("labels: {}")
		item("labels:")
		g.w.line(base+4, "team: a")
	}
	rules := g.choose(site+"rules", "list", "missing", "scalar", "null", "map", "dup-key", "empty-list", "list-of-scalars", "list-with-null")
	switch rules {
	case 1:
		if first {
			// a group with no keys at all
			g.w.line(base, "- {}")
		}
		return
	case 2:
		item("rules: abc")
		return
	case 3:
		item("rules:")
		return
	case 4:
		item("rules: {}")
		return
	case 6:
		item("rules: []")
		return
	case 7:
		item("rules: [a, b]")
		return
	}
	item("rules:")
	nrules := 1 + g.c.Choose(2, site+"nrules")
	if nrules == 2 {
		g.devs = append(g.devs, site+"nrules=2")
	}
	for ri := 0; ri < nrules; ri++ {
		g.rule(base+2, gi, ri)
	}
	if rules == 8 {
		g.w.line(base+2, "-")
	}
	if nameLate {
		item("name: " + name)
	}
	if extra == 34 {
		// group-level labels written after the rules they apply to
		item("labels:")
		g.w.line(base+4, "team: a")
	}
	if rules == 5 {
		g.w.line(base+2, "rules:")
		g.w.line(base+2, "- record: dup:rules")
		g.w.line(base+4, "expr: up")
	}
}

func (g *gen) rule(base, gi, ri int) {
	site := fmt.Sprintf("g%d.r%d.", gi, ri)
	first := true
	item := func(s string) {
		if first {
			g.w.line(base, "- "+s)
			first = false
		} else {
			g.w.line(base+2, s)
		}
	}
	kv := func(k, v string) {
		// styled scalar; block styles need their own lines
		if first {
			ww := &w{}
			ww.kv(0, k, v, g.style)
			ls := strings.Split(strings.TrimSuffix(ww.b.String(), "\n"), "\n")
			g.w.line(base, "- "+ls[0])
			for _, l := range ls[1:] {
				g.w.line(base+2, l)
			}
			first = false
		} else {
			g.w.kv(base+2, k, v, g.style)
		}
	}
	// kind: alerting first for even rule index, recording for odd, flipped by a free choice
	alert := (ri+gi)%2 == 0
	if g.c.Free(2, site+"kind") == 1 {
		alert = !alert
	}
	nameKey := "record"
	nameVal := fmt.Sprintf("job:metric%d%d:sum", gi, ri)
	if alert {
		nameKey = "alert"
		nameVal = fmt.Sprintf("Alert%d%d", gi, ri)
	}
	anchors := g.choose(site+"anchor", "none", "anchor-alias", "merge-key", "alias-undefined")

	nm := g.choose(site+"name", "valid", "missing", "empty", "int", "bool", "null", "list", "map", "binary", "dup-key", "both-kinds",
		"braces", "dash", "space", "colon-start", "digit-start", "float", "empty-plain", "utf8", "tilde")
	switch nm {
	case 0:
		kv(nameKey, nameVal)
	case 1:
	case 2:
		item(nameKey + `: ""`)
	case 3:
		item(nameKey + ": 123")
	case 4:
		item(nameKey + ": true")
	case 5:
		item(nameKey + ":")
	case 6:
		item(nameKey + ": [a]")
	case 7:
		item(nameKey + ": {a: b}")
	case 8:
		item(nameKey + ": !!binary aGVsbG8=")
	case 9:
		kv(nameKey, nameVal)
		kv(nameKey, nameVal+"b")
	case 10:
		kv("record", "both:kinds")
		kv("alert", "BothKinds")
	case 11:
		item(nameKey + `: "foo{bar}"`)
	case 12:
		item(nameKey + ": foo-bar")
	case 13:
		item(nameKey + `: "foo bar"`)
	case 14:
		item(nameKey + `: ":foo"`)
	case 15:
		item(nameKey + `: "1foo"`)
	case 16:
		item(nameKey + ": 1.5")
	case 17:
		item(nameKey + ": ''")
	case 18:
		item(nameKey + `: "föö"`)
	case 19:
		item(nameKey + ": ~")
	}
	ex := g.choose(site+"expr", "valid", "missing", "empty", "int", "bad-promql", "null", "list", "map", "dup-key", "bool", "float", "binary", "tilde", "unknown-func", "comment-only", "two-exprs")
	exprVal := "up == 0"
	if !alert {
		exprVal = "sum(up) by (job)"
	}
	switch ex {
	case 0:
		if anchors == 1 && ri == 0 {
			item("expr: &e1 " + exprVal)
		} else if anchors == 1 && ri == 1 {
			item("expr: *e1")
		} else if anchors == 3 {
			item("expr: *nope")
		} else {
			kv("expr", exprVal)
		}
	case 1:
	case 2:
		item(`expr: ""`)
	case 3:
		item("expr: 1")
	case 4:
		item("expr: sum(")
	case 5:
		item("expr:")
	case 6:
		item("expr: [up]")
	case 7:
		item("expr: {a: b}")
	case 8:
		kv("expr", exprVal)
		kv("expr", "up")
	case 9:
		item("expr: true")
	case 10:
		item("expr: 1.5")
	case 11:
		item("expr: !!binary dXA=")
	case 12:
		item("expr: ~")
	case 13:
		item("expr: nosuchfunc(up)")
	case 14:
		item(`expr: "# just a comment"`)
	case 15:
		item("expr: up up")
	}
	fr := g.choose(site+"for", "absent", "valid", "invalid", "int", "zero", "empty", "dup-key", "negative", "float-unit", "null", "list", "zero-s", "bool", "spaces", "days")
	switch fr {
	case 1:
		kv("for", "5m")
	case 2:
		item("for: abc")
	case 3:
		item("for: 5")
	case 4:
		item("for: 0")
	case 5:
		item(`for: ""`)
	case 6:
		item("for: 5m")
		item("for: 6m")
	case 7:
		item("for: -5m")
	case 8:
		item("for: 1.5m")
	case 9:
		item("for:")
	case 10:
		item("for: [5m]")
	case 11:
		item("for: 0s")
	case 12:
		item("for: true")
	case 13:
		item(`for: " 5m"`)
	case 14:
		item("for: 1d2h")
	}
	kf := g.choose(site+"keep_firing_for", "absent", "valid", "invalid", "int", "empty", "dup-key", "null", "zero-s")
	switch kf {
	case 1:
		kv("keep_firing_for", "5m")
	case 2:
		item("keep_firing_for: abc")
	case 3:
		item("keep_firing_for: 5")
	case 4:
		item(`keep_firing_for: ""`)
	case 5:
		item("keep_firing_for: 5m")
		item("keep_firing_for: 6m")
	case 6:
		item("keep_firing_for:")
	case 7:
		item("keep_firing_for: 0s")
	}
	lb := g.choose(site+"labels", "absent", "valid", "scalar", "list", "badname", "__name__", "intvalue", "dup-key", "bad-template", "nullvalue", "empty-map",
		"boolvalue", "good-template", "null", "dup-labels-key", "spacename", "digitname", "listvalue", "mapvalue", "floatvalue", "emptyvalue", "emptyname", "template-undefined-func", "intkey", "flow-map",
		// the keys the group-level labels of the generator use (team), overriding them at rule level
		"override-group-key", "override-group-key-bad-template", "override-group-key-undefined-func", "override-group-key-good-template", "override-group-key-value-template")
	mapItem := func(key string, lines ...string) {
		item(key + ":")
		for _, l := range lines {
			g.w.line(base+4, l)
		}
	}
	switch lb {
	case 1:
		mapItem("labels", "severity: page")
	case 2:
		item("labels: abc")
	case 3:
		item("labels: [a]")
	case 4:
		mapItem("labels", `"a-b": x`)
	case 5:
		mapItem("labels", "__name__: x")
	case 6:
		mapItem("labels", "severity: 1")
	case 7:
		mapItem("labels", "severity: a", "severity: b")
	case 8:
		mapItem("labels", `severity: "{{ $labels.job"`)
	case 9:
		mapItem("labels", "severity:")
	case 10:
		item("labels: {}")
	case 11:
		mapItem("labels", "severity: true")
	case 12:
		mapItem("labels", `severity: "{{ $labels.job }}"`)
	case 13:
		item("labels:")
	case 14:
		mapItem("labels", "severity: a")
		mapItem("labels", "team: b")
	case 15:
		mapItem("labels", `"a b": x`)
	case 16:
		mapItem("labels", `"1a": x`)
	case 17:
		mapItem("labels", "severity: [a]")
	case 18:
		mapItem("labels", "severity: {a: b}")
	case 19:
		mapItem("labels", "severity: 1.5")
	case 20:
		mapItem("labels", `severity: ""`)
	case 21:
		mapItem("labels", `"": x`)
	case 22:
		mapItem("labels", `severity: "{{ nosuchfunc 1 }}"`)
	case 23:
		mapItem("labels", "1: x")
	case 24:
		item("labels: {severity: page, team: a}")
	case 25:
		mapItem("labels", "team: z")
	case 26:
		mapItem("labels", `team: "{{ $labels.job"`)
	case 27:
		mapItem("labels", `team: "{{ nosuchfunc 1 }}"`)
	case 28:
		mapItem("labels", `team: "{{ $labels.job }}"`)
	case 29:
		mapItem("labels", `team: "{{ $value }}"`)
	}
	an := g.choose(site+"annotations", "absent", "valid", "scalar", "badname", "intvalue", "dup-key", "bad-template", "list", "nullvalue", "null", "empty-map",
		"good-template", "dup-annotations-key", "spacename", "boolvalue", "template-undefined-func", "template-undefined-var", "mapvalue", "emptyname", "__name__")
	switch an {
	case 1:
		mapItem("annotations", "summary: hello")
	case 2:
		item("annotations: abc")
	case 3:
		mapItem("annotations", `"a-b": x`)
	case 4:
		mapItem("annotations", "summary: 1")
	case 5:
		mapItem("annotations", "summary: a", "summary: b")
	case 6:
		mapItem("annotations", `summary: "{{ $labels.job"`)
	case 7:
		item("annotations: [a]")
	case 8:
		mapItem("annotations", "summary:")
	case 9:
		item("annotations:")
	case 10:
		item("annotations: {}")
	case 11:
		mapItem("annotations", `summary: "{{ $labels.job }} is {{ $value }}"`)
	case 12:
		mapItem("annotations", "summary: a")
		mapItem("annotations", "other: b")
	case 13:
		mapItem("annotations", `"a b": x`)
	case 14:
		mapItem("annotations", "summary: true")
	case 15:
		mapItem("annotations", `summary: "{{ nosuchfunc 1 }}"`)
	case 16:
		mapItem("annotations", `summary: "{{ $nosuchvar }}"`)
	case 17:
		mapItem("annotations", "summary: {a: b}")
	case 18:
		mapItem("annotations", `"": x`)
	case 19:
		mapItem("annotations", "__name__: x")
	}
	uk := g.choose(site+"unknown", "none", "unknown-key", "empty-key", "null-key-value", "intkey", "uppercase-key")
	switch uk {
	case 1:
		item("foo: bar")
	case 2:
		item(`"": bar`)
	case 3:
		item("foo:")
	case 4:
		item("1: bar")
	case 5:
		item("Expr: up")
	}
	if anchors == 2 {
		item("<<: {for: 1m}")
	}
	if first {
		// every key missing: an empty mapping item
		g.w.line(base, "- {}")
	}
}
