package rulegen

import (
	"fmt"
	"strings"

	"github.com/cloudflare/pint/verifharness/explore"
)

// Styles a scalar can be written in. The first is the default.
var Styles = []string{"plain", "single", "double", "literal", "literal-strip", "literal-keep", "folded", "folded-strip", "folded-keep",
	"literal-indent-indicator", "plain-multiline", "double-multiline", "literal-indent1", "literal-indent4", "single-multiline", "folded-indent1", "literal-blank-lines", "literal-leading-blank", "folded-leading-blank", "literal-keep-trailing-blank", "literal-strip-leading-blank2"}

// renderScalar returns the lines for "key:<scalar>" at indentation ind (the key's own indentation).
// ok=false when the style cannot carry the value.
func renderScalar(ind int, key, val string, style int) (lines []string, ok bool) {
	pad := strings.Repeat(" ", ind)
	cont := func(extra int, body []string) []string {
		var out []string
		for _, l := range body {
			if l == "" {
				out = append(out, "")
			} else {
				out = append(out, strings.Repeat(" ", ind+extra)+l)
			}
		}
		return out
	}
	multi := strings.Contains(val, "\n")
	words := strings.Split(val, " ")
	switch Styles[style] {
	case "plain":
		if multi || strings.ContainsAny(val, "#:{}[]\"'|>&*!%@`,") || val != strings.TrimSpace(val) || val == "" {
			return nil, false
		}
		return []string{pad + key + ": " + val}, true
	case "single":
		if multi || strings.Contains(val, "'") {
			return nil, false
		}
		return []string{pad + key + ": '" + val + "'"}, true
	case "double":
		if multi || strings.ContainsAny(val, "\"\\") {
			return nil, false
		}
		return []string{pad + key + ": \"" + val + "\""}, true
	case "literal-leading-blank", "folded-leading-blank", "literal-keep-trailing-blank", "literal-strip-leading-blank2":
		if val != strings.TrimRight(val, " \n") || strings.HasPrefix(val, " ") || val == "" || (multi && strings.HasPrefix(Styles[style], "folded")) {
			return nil, false
		}
		body := strings.Split(val, "\n")
		switch Styles[style] {
		case "literal-leading-blank":
			return append([]string{pad + key + ": |", ""}, cont(2, body)...), true
		case "folded-leading-blank":
			return append([]string{pad + key + ": >", ""}, cont(2, body)...), true
		case "literal-strip-leading-blank2":
			return append([]string{pad + key + ": |-", "", ""}, cont(2, body)...), true
		default:
			return append(append([]string{pad + key + ": |+"}, cont(2, body)...), "", ""), true
		}
	case "literal", "literal-strip", "literal-keep", "literal-indent-indicator", "literal-indent1", "literal-indent4", "literal-blank-lines":
		if val != strings.TrimRight(val, " \n") || strings.HasPrefix(val, " ") || val == "" {
			return nil, false
		}
		ind2, head := 2, "|"
		switch Styles[style] {
		case "literal-strip":
			head = "|-"
		case "literal-keep":
			head = "|+"
		case "literal-indent-indicator":
			head = "|2"
		case "literal-indent1":
			ind2 = 1
		case "literal-indent4":
			ind2 = 4
		}
		body := strings.Split(val, "\n")
		if Styles[style] == "literal-blank-lines" {
			if len(body) < 2 {
				return nil, false
			}
			body = append([]string{body[0], ""}, body[1:]...)
		}
		return append([]string{pad + key + ": " + head}, cont(ind2, body)...), true
	case "folded", "folded-strip", "folded-keep", "folded-indent1":
		if multi || val != strings.TrimSpace(val) || len(words) < 2 || strings.Contains(val, "  ") {
			return nil, false
		}
		head := map[string]string{"folded": ">", "folded-strip": ">-", "folded-keep": ">+", "folded-indent1": ">"}[Styles[style]]
		ind2 := 2
		if Styles[style] == "folded-indent1" {
			ind2 = 1
		}
		return append([]string{pad + key + ": " + head}, cont(ind2, []string{strings.Join(words[:1], " "), strings.Join(words[1:], " ")})...), true
	case "plain-multiline":
		if multi || len(words) < 2 || strings.Contains(val, "  ") || strings.ContainsAny(val, "#:{}[]\"'|>&*!%@`,") || val != strings.TrimSpace(val) {
			return nil, false
		}
		return append([]string{pad + key + ": " + words[0]}, cont(4, []string{strings.Join(words[1:], " ")})...), true
	case "double-multiline":
		if multi || len(words) < 2 || strings.Contains(val, "  ") || strings.ContainsAny(val, "\"\\") || val != strings.TrimSpace(val) {
			return nil, false
		}
		return append([]string{pad + key + ": \"" + words[0]}, cont(3, []string{strings.Join(words[1:], " ") + "\""})...), true
	case "single-multiline":
		if multi || len(words) < 3 || strings.Contains(val, "  ") || strings.Contains(val, "'") || val != strings.TrimSpace(val) {
			return nil, false
		}
		return append([]string{pad + key + ": '" + words[0]}, cont(2, []string{words[1], strings.Join(words[2:], " ") + "'"})...), true
	}
	return nil, false
}

type StyledDoc struct {
	Text    string
	Choices []string
	Valid   bool
}

// vocabularies chosen to stress the greedy position matcher
var (
	exprVocab = []string{"up == 0", "sum(foo)  by (job) > 0", "sum(up)\n  by (job)\n> 0", "aaaa == aaaa", "expr > expr", `up{a="#"} > 0`, "up == 0 or up == 0 or up == 0", "sum(rate(errors_total[5m])) > 0", "a\nb\nc > 0", "foo   > 1", "1 > bool 0"}
	nameVocab = []string{"Alert1", "alert", "AAAA", "A B", "Alert: x", "lert alert"}
	forVocab  = []string{"5m", "1h30m", "for", "55m"}
	lvalVocab = []string{"page", "severity", "pp", "a b c", "x: y", "p a g e"}
	avalVocab = []string{"hello", "summary", "instance {{ $labels.instance }} is down", "a\nb", "down  down", "sum mary", "{{ $value }} errors"}
)

type styledGen struct {
	c   *explore.Chooser
	dev []string
	ok  bool
}

func (g *styledGen) pick(site string, n int, names func(int) string) int {
	k := g.c.Choose(n, site)
	if k != 0 {
		g.dev = append(g.dev, site+"="+names(k))
	}
	return k
}

func (g *styledGen) field(ind int, site, key string, vocab []string) []string {
	vi := g.pick(site+".value", len(vocab), func(i int) string { return fmt.Sprintf("%q", vocab[i]) })
	val := vocab[vi]
	si := g.pick(site+".style", len(Styles), func(i int) string { return Styles[i] })
	if si == 0 {
		if _, ok := renderScalar(ind, key, val, 0); !ok {
			si = 2 // default style that can carry anything single-line
			if strings.Contains(val, "\n") {
				si = 3
			}
			if strings.ContainsAny(val, "\"\\") && !strings.Contains(val, "\n") {
				si = 1
			}
		}
	}
	lines, ok := renderScalar(ind, key, val, si)
	if !ok {
		g.ok = false
		return nil
	}
	// comment / blank line placement around the field
	switch g.pick(site+".around", 6, func(i int) string {
		return []string{"", "comment-before", "blank-before", "trailing-comment", "comment-after", "blank-after"}[i]
	}) {
	case 1:
		lines = append([]string{strings.Repeat(" ", ind) + "# a comment " + key + ": " + val}, lines...)
	case 2:
		lines = append([]string{""}, lines...)
	case 3:
		if len(lines) == 1 {
			lines[0] += " # trailing " + val
		} else {
			lines[0] += " # trailing"
		}
	case 4:
		lines = append(lines, strings.Repeat(" ", ind)+"# after "+val)
	case 5:
		lines = append(lines, "")
	}
	return lines
}

// NestedIndents: indentations of label/annotation keys relative to `labels:` / `annotations:`. A harness that sets
// more than one gets them as a free (not deviation-counted) dimension (C06, after seed C06_5).
var NestedIndents = []int{2}

// Styled generates a one- or two-rule document whose fields are written in every scalar style and layout.
func Styled(c *explore.Chooser) StyledDoc {
	g := &styledGen{c: c, ok: true}
	layout := g.pick("layout", 5, func(i int) string {
		return []string{"", "relaxed-list", "strict-indent4", "relaxed-indent2", "strict-2rules"}[i]
	})
	nest := NestedIndents[0]
	if len(NestedIndents) > 1 {
		nest = NestedIndents[c.Free(len(NestedIndents), "nested-indent")]
	}
	var out []string
	ruleInd := 4 // indentation of rule keys
	switch layout {
	case 0, 4:
		out = append(out, "groups:", "- name: g", "  rules:")
		ruleInd = 4
	case 1:
		ruleInd = 2
	case 2:
		out = append(out, "groups:", "    - name: g", "      rules:")
		ruleInd = 12
	case 3:
		ruleInd = 4
	}
	emitRule := func(idx int) {
		site := fmt.Sprintf("r%d", idx)
		var body []string
		order := g.pick(site+".order", 3, func(i int) string { return []string{"", "expr-first", "labels-first"}[i] })
		name := g.field(ruleInd, site+".alert", "alert", nameVocab)
		expr := g.field(ruleInd, site+".expr", "expr", exprVocab)
		var fr, kf, labels, anns []string
		if g.pick(site+".for", 2, func(int) string { return "present" }) == 1 {
			fr = g.field(ruleInd, site+".forv", "for", forVocab)
		}
		if g.pick(site+".kff", 2, func(int) string { return "present" }) == 1 {
			kf = g.field(ruleInd, site+".kffv", "keep_firing_for", forVocab)
		}
		switch g.pick(site+".labels", 4, func(i int) string { return []string{"", "block", "flow", "block-quoted-key"}[i] }) {
		case 1:
			labels = append([]string{strings.Repeat(" ", ruleInd) + "labels:"}, g.field(ruleInd+nest, site+".lv", "severity", lvalVocab)...)
			labels = append(labels, strings.Repeat(" ", ruleInd+nest)+"team: severity")
		case 2:
			labels = []string{strings.Repeat(" ", ruleInd) + "labels: {severity: page, page: severity}"}
		case 3:
			labels = append([]string{strings.Repeat(" ", ruleInd) + "labels:"}, g.field(ruleInd+nest, site+".lv", `"severity"`, lvalVocab)...)
		}
		switch g.pick(site+".annotations", 3, func(i int) string { return []string{"", "block", "flow"}[i] }) {
		case 1:
			anns = append([]string{strings.Repeat(" ", ruleInd) + "annotations:"}, g.field(ruleInd+nest, site+".av", "summary", avalVocab)...)
			anns = append(anns, g.field(ruleInd+nest, site+".av2", "description", avalVocab)...)
		case 2:
			anns = []string{strings.Repeat(" ", ruleInd) + `annotations: {summary: "hello world", description: 'hello'}`}
		}
		switch order {
		case 0:
			body = append(body, name...)
			body = append(body, expr...)
			body = append(body, fr...)
			body = append(body, kf...)
			body = append(body, labels...)
			body = append(body, anns...)
		case 1:
			body = append(body, expr...)
			body = append(body, anns...)
			body = append(body, name...)
			body = append(body, labels...)
			body = append(body, fr...)
			body = append(body, kf...)
		case 2:
			body = append(body, labels...)
			body = append(body, fr...)
			body = append(body, name...)
			body = append(body, kf...)
			body = append(body, anns...)
			body = append(body, expr...)
		}
		if !g.ok || len(body) == 0 {
			g.ok = false
			return
		}
		// the first key line carries the list dash; comment/blank lines before it stay as they are
		for i, l := range body {
			t := strings.TrimSpace(l)
			if t == "" || strings.HasPrefix(t, "#") {
				continue
			}
			body[i] = l[:ruleInd-2] + "- " + l[ruleInd:]
			break
		}
		out = append(out, body...)
	}
	emitRule(0)
	if layout == 4 {
		emitRule(1)
	}
	final := g.pick("final-newline", 2, func(int) string { return "missing" })
	text := strings.Join(out, "\n")
	if final == 0 {
		text += "\n"
	}
	return StyledDoc{Text: text, Choices: g.dev, Valid: g.ok}
}
