// Package promqlgen enumerates PromQL expressions up to a number of operator nodes from a Chooser.
package promqlgen

import (
	"fmt"

	"github.com/cloudflare/pint/verifharness/explore"
)

// Alphabet selects how rich the grammar is.
type Alphabet struct {
	Metrics   []string
	Matchers  []string // matcher sets for selectors, "" = none
	Unary     []string // wrappers with %s for the operand
	RangeFns  []string // functions taking sel[5m]
	BinOps    []string
	Modifiers []string // vector matching modifiers, "" = none
	Scalars   []string // scalar leaves usable as binary operands
	Extra     []string // extra vector leaves (vector(1), ...)
}

var Full = Alphabet{
	Metrics:  []string{"foo", "bar"},
	Matchers: []string{"", `a="x"`, `a!="x"`, `a=~"x|y"`, `a!~"x"`, `a=""`, `a!=""`, `a="x", b="x"`},
	Unary: []string{
		"sum(%s)", "sum by(a) (%s)", "sum by(a, b) (%s)", "sum without(a) (%s)",
		"count(%s)", "count by(a) (%s)", "min without(b) (%s)", "max by(c) (%s)",
		"topk(1, %s)", `count_values("c", %s)`, "abs(%s)", `label_replace(%s, "c", "$1", "a", "(.*)")`, `label_join(%s, "c", "-", "a", "b")`,
		"absent(%s)", "-%s", "(%s)", "%s > 0", "%s > bool 0", "%s * 2", "max_over_time((%s)[5m:1m])", "group by(b) (%s)", "quantile(0.5, %s)", "sort(%s)", "timestamp(%s)", "bottomk by(a) (1, %s)",
	},
	RangeFns:  []string{"rate(%s[5m])", "increase(%s[5m])", "max_over_time(%s[5m])", "absent_over_time(%s[5m])", "%s offset 1m", "last_over_time(%s[5m])"},
	BinOps:    []string{"*", "/", ">", "==", "and", "or", "unless", "+", "> bool"},
	Modifiers: []string{"", "on(a)", "on()", "ignoring(b)", "on(a) group_left()", "on(a) group_left(c)", "ignoring(b) group_right()", "on(a, b)", "ignoring(a, b, c)", "on(a) group_right(b)"},
	Scalars:   []string{"1", "0"},
	Extra:     []string{"vector(1)", "vector(0)"},
}

var Core = Alphabet{
	Metrics:  []string{"foo", "bar"},
	Matchers: []string{"", `a="x"`, `a!="x"`, `a=~"x|y"`},
	Unary: []string{
		"sum(%s)", "sum by(a) (%s)", "sum without(a) (%s)", "count by(a, b) (%s)",
		"topk(1, %s)", `count_values("c", %s)`, `label_replace(%s, "c", "$1", "a", "(.*)")`,
		"absent(%s)", "%s > 0", "%s * 2",
	},
	RangeFns:  []string{"rate(%s[5m])", "absent_over_time(%s[5m])"},
	BinOps:    []string{"*", ">", "and", "or", "unless"},
	Modifiers: []string{"", "on(a)", "on()", "ignoring(b)", "on(a) group_left()", "on(a) group_left(c)", "ignoring(b) group_right()"},
	Scalars:   []string{"1"},
	Extra:     []string{"vector(1)"},
}

// Expr is a generated expression.
type Expr struct {
	Text    string
	Scalar  bool // the expression is a scalar literal
	Sel     bool // bare selector (can take a range)
	Metrics map[string]bool
	Ops     int
}

// Gen enumerates an expression with at most n operator nodes. ok=false for choices that denote nothing.
func Gen(c *explore.Chooser, a *Alphabet, n int, tag string) (e Expr, ok bool) {
	e.Metrics = map[string]bool{}
	nleaf := len(a.Metrics)*len(a.Matchers) + len(a.Extra) + len(a.Scalars)
	nun, nrf, nbin := 0, 0, 0
	if n > 0 {
		nun, nrf, nbin = len(a.Unary), len(a.RangeFns), len(a.BinOps)*len(a.Modifiers)
	}
	k := c.Free(nleaf+nun+nrf+nbin, tag)
	switch {
	case k < len(a.Metrics)*len(a.Matchers):
		m := a.Metrics[k/len(a.Matchers)]
		mt := a.Matchers[k%len(a.Matchers)]
		e.Text = m
		if mt != "" {
			e.Text = m + "{" + mt + "}"
		}
		e.Sel = true
		e.Metrics[m] = true
		return e, true
	case k < len(a.Metrics)*len(a.Matchers)+len(a.Extra):
		e.Text = a.Extra[k-len(a.Metrics)*len(a.Matchers)]
		return e, true
	case k < nleaf:
		e.Text = a.Scalars[k-len(a.Metrics)*len(a.Matchers)-len(a.Extra)]
		e.Scalar = true
		return e, true
	}
	k -= nleaf
	switch {
	case k < nun:
		in, ok := Gen(c, a, n-1, tag+".u")
		if !ok || in.Scalar {
			return e, false
		}
		e = Expr{Text: fmt.Sprintf(a.Unary[k], in.Text), Metrics: in.Metrics, Ops: in.Ops + 1}
		return e, true
	case k < nun+nrf:
		in, ok := Gen(c, a, 0, tag+".r")
		if !ok || !in.Sel {
			return e, false
		}
		e = Expr{Text: fmt.Sprintf(a.RangeFns[k-nun], in.Text), Metrics: in.Metrics, Ops: 1}
		return e, true
	}
	k -= nun + nrf
	op := a.BinOps[k/len(a.Modifiers)]
	mod := a.Modifiers[k%len(a.Modifiers)]
	// split the remaining budget between the operands
	left := 0
	if n-1 > 0 {
		left = c.Free(n, tag+".split")
	}
	l, ok1 := Gen(c, a, left, tag+".l")
	if !ok1 {
		return e, false
	}
	r, ok2 := Gen(c, a, n-1-left, tag+".r")
	if !ok2 {
		return e, false
	}
	if l.Scalar && r.Scalar {
		return e, false
	}
	if (l.Scalar || r.Scalar) && mod != "" {
		return e, false
	}
	sep := " "
	if mod != "" {
		sep = " " + mod + " "
	}
	e = Expr{Text: "(" + l.Text + ") " + op + sep + "(" + r.Text + ")", Metrics: map[string]bool{}, Ops: l.Ops + r.Ops + 1}
	if l.Sel || l.Scalar {
		e.Text = l.Text + " " + op + sep
	} else {
		e.Text = "(" + l.Text + ") " + op + sep
	}
	if r.Sel || r.Scalar {
		e.Text += r.Text
	} else {
		e.Text += "(" + r.Text + ")"
	}
	for m := range l.Metrics {
		e.Metrics[m] = true
	}
	for m := range r.Metrics {
		e.Metrics[m] = true
	}
	return e, true
}
