// Package promfake is a Prometheus-compatible HTTP API whose query endpoints are answered by the vendored
// PromQL engine over an in-memory database (lib/promqlsim).
package promfake

import (
	"encoding/json"
	"fmt"
	"net/http"
	"net/http/httptest"
	"strconv"
	"sync"
	"time"

	"github.com/prometheus/prometheus/model/labels"
	"github.com/prometheus/prometheus/promql"

	"github.com/cloudflare/pint/verifharness/lib/promqlsim"
)

type Server struct {
	mu       sync.Mutex
	db       promqlsim.DB
	engine   *promql.Engine
	HTTP     *httptest.Server
	Requests []string
}

func New() *Server {
	s := &Server{engine: promqlsim.NewEngine()}
	s.HTTP = httptest.NewServer(http.HandlerFunc(s.handle))
	return s
}

func (s *Server) SetDB(db promqlsim.DB) {
	s.mu.Lock()
	s.db = db
	s.Requests = nil
	s.mu.Unlock()
}

func (s *Server) Close() { s.HTTP.Close() }

func parseTime(v string) time.Time {
	f, _ := strconv.ParseFloat(v, 64)
	sec := int64(f)
	return time.Unix(sec, int64((f-float64(sec))*1e9))
}

func metricJSON(ls labels.Labels) map[string]string {
	m := map[string]string{}
	ls.Range(func(l labels.Label) { m[l.Name] = l.Value })
	return m
}

func writeErr(w http.ResponseWriter, code int, typ, msg string) {
	w.Header().Set("Content-Type", "application/json")
	w.WriteHeader(code)
	json.NewEncoder(w).Encode(map[string]any{"status": "error", "errorType": typ, "error": msg})
}

func (s *Server) handle(w http.ResponseWriter, r *http.Request) {
	r.ParseForm()
	s.mu.Lock()
	db := s.db
	s.Requests = append(s.Requests, r.URL.Path+"?"+r.Form.Encode())
	s.mu.Unlock()
	w.Header().Set("Content-Type", "application/json")
	switch r.URL.Path {
	case "/api/v1/query":
		ts := time.Now()
		if t := r.Form.Get("time"); t != "" {
			ts = parseTime(t)
		}
		vec, err := promqlsim.Instant(s.engine, db, r.Form.Get("query"), ts)
		if err != nil {
			writeErr(w, 422, "execution", err.Error())
			return
		}
		res := []any{}
		for _, smp := range vec {
			res = append(res, map[string]any{"metric": metricJSON(smp.Metric), "value": []any{float64(smp.T) / 1000, strconv.FormatFloat(smp.F, 'f', -1, 64)}})
		}
		json.NewEncoder(w).Encode(map[string]any{"status": "success", "data": map[string]any{"resultType": "vector", "result": res}})
	case "/api/v1/query_range":
		start, end := parseTime(r.Form.Get("start")), parseTime(r.Form.Get("end"))
		stepF, _ := strconv.ParseFloat(r.Form.Get("step"), 64)
		step := time.Duration(stepF * float64(time.Second))
		if step <= 0 {
			writeErr(w, 400, "bad_data", "invalid step")
			return
		}
		m, err := promqlsim.Range(s.engine, db, r.Form.Get("query"), start, end, step)
		if err != nil {
			writeErr(w, 422, "execution", err.Error())
			return
		}
		res := []any{}
		for _, ser := range m {
			vals := []any{}
			for _, p := range ser.Floats {
				vals = append(vals, []any{float64(p.T) / 1000, strconv.FormatFloat(p.F, 'f', -1, 64)})
			}
			res = append(res, map[string]any{"metric": metricJSON(ser.Metric), "values": vals})
		}
		json.NewEncoder(w).Encode(map[string]any{"status": "success", "data": map[string]any{"resultType": "matrix", "result": res}})
	case "/api/v1/status/config":
		json.NewEncoder(w).Encode(map[string]any{"status": "success", "data": map[string]any{"yaml": "global:\n  scrape_interval: 1m\n"}})
	case "/api/v1/status/flags":
		json.NewEncoder(w).Encode(map[string]any{"status": "success", "data": map[string]string{"storage.tsdb.retention.time": "15d"}})
	case "/api/v1/metadata":
		json.NewEncoder(w).Encode(map[string]any{"status": "success", "data": map[string]any{}})
	default:
		writeErr(w, 404, "not_found", fmt.Sprintf("unknown path %s", r.URL.Path))
	}
}
