// Package fixtures holds configs and rule palettes shared by several harnesses.
package fixtures

import "fmt"

// OfflineConfig enables every configurable offline check kind once. locked adds `locked = true`.
func OfflineConfig(locked bool) string {
	l := ""
	if locked {
		l = "  locked = true\n"
	}
	return fmt.Sprintf(`
rule {
%s  aggregate ".+" {
    keep = ["job"]
  }
  aggregate ".+" {
    strip = ["instance"]
  }
  label "severity" {
    required = true
    severity = "bug"
  }
  label "team" {
    value = "(sre|dev)"
    severity = "warning"
  }
  annotation "summary" {
    required = true
  }
  for {
    min = "2m"
    max = "1h"
  }
  keep_firing_for {
    max = "30m"
  }
  name "[A-Z].+" {
    severity = "warning"
  }
  reject "bad.*" {
    label_values      = true
    annotation_values = true
  }
  report {
    comment  = "reported by config"
    severity = "info"
  }
  range_query {
    max = "1d"
  }
}
`, l)
}

// Rule is one palette rule; lines are at list-item level (first line begins with "- ").
type Rule struct {
	Name  string
	Lines []string
}

// Palette: rules that each trigger at least one problem under OfflineConfig.
var Palette = []Rule{
	{"RegexpAlert", []string{`- alert: RegexpAlert`, `  expr: up{job=~"x"} == 0`, `  for: 5m`, `  labels:`, `    severity: page`, `  annotations:`, `    summary: down`}},
	{"lowercase", []string{`- alert: lowercase`, `  expr: up == 0`, `  for: 5m`, `  labels:`, `    severity: page`, `  annotations:`, `    summary: x`}},
	{"NoLabels", []string{`- alert: NoLabels`, `  expr: up == 0`, `  for: 5m`}},
	{"ShortFor", []string{`- alert: ShortFor`, `  expr: up == 0`, `  for: 1m`, `  labels:`, `    severity: page`, `  annotations:`, `    summary: x`}},
	{"ZeroFor", []string{`- alert: ZeroFor`, `  expr: up == 0`, `  for: 0m`, `  keep_firing_for: 2h`, `  labels:`, `    severity: page`, `  annotations:`, `    summary: x`}},
	{"AlwaysFiring", []string{`- alert: AlwaysFiring`, `  expr: up`, `  for: 5m`, `  labels:`, `    severity: page`, `  annotations:`, `    summary: x`}},
	{"TemplateMissing", []string{`- alert: TemplateMissing`, `  expr: sum(up) == 0`, `  for: 5m`, `  labels:`, `    severity: page`, `  annotations:`, `    summary: "{{ $labels.instance }} down"`}},
	{"BadValue", []string{`- alert: BadValue`, `  expr: up == 0`, `  for: 5m`, `  labels:`, `    severity: badness`, `    team: ops`, `  annotations:`, `    summary: bad thing`}},
	{"agg:strip", []string{`- record: agg:strip`, `  expr: sum(up) by (instance, job)`, `  labels:`, `    severity: none`}},
	{"agg:keep", []string{`- record: agg:keep`, `  expr: sum(up) without (job)`, `  labels:`, `    severity: none`}},
	{"dead:code", []string{`- record: dead:code`, `  expr: vector(1) > 2`, `  labels:`, `    severity: none`}},
	{"long:range", []string{`- record: long:range`, `  expr: sum(rate(foo[2d])) by (job)`, `  labels:`, `    severity: none`}},
	{"Fragile", []string{`- alert: Fragile`, `  expr: errors / sum(requests) by (job) > 0.1`, `  for: 5m`, `  labels:`, `    severity: page`, `  annotations:`, `    summary: x`}},
}
