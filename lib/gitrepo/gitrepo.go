// Package gitrepo drives a scratch git repository with fixed identity and dates.
package gitrepo

import (
	"bytes"
	"fmt"
	"os"
	"os/exec"
	"path/filepath"
)

type Repo struct {
	Dir string
	n   int
}

func (r *Repo) env() []string {
	r.n++
	date := fmt.Sprintf("2024-01-01T00:%02d:%02d+00:00", (r.n/60)%60, r.n%60)
	return []string{
		"PATH=" + os.Getenv("PATH"), "HOME=" + r.Dir, "GIT_CONFIG_NOSYSTEM=1", "GIT_CONFIG_GLOBAL=/dev/null",
		"GIT_AUTHOR_NAME=verif", "GIT_AUTHOR_EMAIL=verif@example.com", "GIT_COMMITTER_NAME=verif", "GIT_COMMITTER_EMAIL=verif@example.com",
		"GIT_AUTHOR_DATE=" + date, "GIT_COMMITTER_DATE=" + date, "TZ=UTC", "LC_ALL=C",
	}
}

// Git runs a git command and panics on failure (a failing git command is a harness error).
func (r *Repo) Git(args ...string) string {
	out, err := r.TryGit(args...)
	if err != nil {
		panic(fmt.Sprintf("git %v in %s: %v\n%s", args, r.Dir, err, out))
	}
	return out
}

func (r *Repo) TryGit(args ...string) (string, error) {
	cmd := exec.Command("git", args...)
	cmd.Dir = r.Dir
	cmd.Env = r.env()
	var out bytes.Buffer
	cmd.Stdout = &out
	cmd.Stderr = &out
	err := cmd.Run()
	return out.String(), err
}

// Init creates a repository in dir with an initial branch "main".
func Init(dir string) *Repo {
	r := &Repo{Dir: dir}
	r.Git("init", "-q", "-b", "main", ".")
	r.Git("config", "core.hooksPath", "/dev/null")
	r.Git("config", "gc.auto", "0")
	r.Git("config", "commit.gpgsign", "false")
	return r
}

func (r *Repo) Write(name, content string) {
	p := filepath.Join(r.Dir, name)
	os.MkdirAll(filepath.Dir(p), 0o755)
	if err := os.WriteFile(p, []byte(content), 0o644); err != nil {
		panic(err)
	}
}

func (r *Repo) Remove(name string) { os.Remove(filepath.Join(r.Dir, name)) }

func (r *Repo) Commit(msg string) {
	r.Git("add", "-A", ".")
	r.Git("commit", "-q", "--allow-empty", "-m", msg)
}

func (r *Repo) Checkout(branch string, create bool) {
	if create {
		r.Git("checkout", "-q", "-b", branch)
	} else {
		r.Git("checkout", "-q", branch)
	}
}

func (r *Repo) Destroy() { os.RemoveAll(r.Dir) }
