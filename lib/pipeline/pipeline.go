// Package pipeline is the library-level seam: parse -> checks -> sort/dedup -> render, in the calling
// goroutine. It mirrors cmd/pint/lint.go + scan.go minus the worker fan-out (decided separately by C11),
// so that a panic in a check can be attributed to a case by recover().
package pipeline

import (
	"bytes"
	"context"
	"fmt"
	"io"
	"log/slog"
	"os"
	"path/filepath"
	"runtime/debug"
	"strings"

	"github.com/prometheus/client_golang/prometheus"
	"github.com/prometheus/common/model"

	"github.com/cloudflare/pint/internal/checks"
	"github.com/cloudflare/pint/internal/config"
	"github.com/cloudflare/pint/internal/discovery"
	"github.com/cloudflare/pint/internal/parser"
	"github.com/cloudflare/pint/internal/promapi"
	"github.com/cloudflare/pint/internal/reporter"
)

func init() {
	slog.SetDefault(slog.New(slog.NewTextHandler(io.Discard, nil)))
}

// Scratch is a per-process scratch directory on tmpfs; rule files are written there because the
// console reporter re-reads the file from disk.
var scratch string

func ScratchDir() string {
	if scratch == "" {
		base := "/dev/shm"
		if _, err := os.Stat(base); err != nil {
			base = os.TempDir()
		}
		d, err := os.MkdirTemp(base, "verif-pipe-")
		if err != nil {
			panic(err)
		}
		scratch = d
	}
	return scratch
}

func Cleanup() {
	if scratch != "" {
		os.RemoveAll(scratch)
		scratch = ""
	}
}

// WriteFile writes content under the scratch directory and returns the absolute path.
func WriteFile(name string, content []byte) string {
	p := filepath.Join(ScratchDir(), name)
	os.MkdirAll(filepath.Dir(p), 0o755)
	if err := os.WriteFile(p, content, 0o644); err != nil {
		panic(err)
	}
	return p
}

type Crash struct {
	Value string
	Stack string
	Site  string
}

func catch(site string, out **Crash) {
	if p := recover(); p != nil {
		st := string(debug.Stack())
		*out = &Crash{Value: fmt.Sprint(p), Stack: st, Site: site + ":" + panicFrame(st)}
	}
}

// panicFrame returns the first non-runtime function after the panic() frame.
func panicFrame(stack string) string {
	lines := strings.Split(stack, "\n")
	saw := false
	for _, l := range lines {
		if !saw {
			if strings.HasPrefix(l, "panic(") {
				saw = true
			}
			continue
		}
		if l == "" || l[0] == '\t' || l[0] == ' ' {
			continue
		}
		fn := l
		if i := strings.LastIndexByte(fn, '('); i > 0 {
			fn = fn[:i]
		}
		if strings.HasPrefix(fn, "runtime.") || strings.HasPrefix(fn, "runtime/") {
			continue
		}
		return fn
	}
	return "unknown"
}

// PriorFiles are files a harness may have parsed in the same process right before the file under test
// (Prime): whatever one parse leaves behind - exclusion flags, unread buffered bytes, cached results - must not
// reach the next one. Index 0 is a neutral file (valid, read to its end, every exclusion block closed): parsing
// it first puts the process into one defined state whatever earlier cases of the same worker left behind, which
// keeps every case reproducible on its own.
var PriorFiles = func() []string {
	long := strings.Repeat("  - record: filler:rule\n    expr: sum(up) by (job)\n", 40)
	return []string{
		"groups:\n- name: p\n  rules:\n  - record: p:a\n    expr: up\n# pint ignore/begin\n  - record: p:b\n# pint ignore/end\n",
		"groups:\n- name: p\n  rules:\n  - record: p:a\n    expr: up\n# pint ignore/begin\n  - record: p:b\n    expr: up\n",
		"groups:\n- name: p\n  rules:\n  - record: p:a\n    expr: up\n# pint ignore/next-line",
		// the decoder stops at a syntax error near the top with ~2 KB still unread
		"groups:\n- name: p\n  rules:\n  - record: [ broken\n" + long,
		// strict-mode error in the first document of a long multi-document file
		"groups:\n- name: p\n  bogus: true\n  rules: []\n---\ngroups:\n- name: q\n  rules:\n" + long,
	}
}()

// Prime parses PriorFiles[i] (strict and relaxed) and throws the result away.
func Prime(i int) {
	if i < 0 || i >= len(PriorFiles) {
		i = 0
	}
	for _, strict := range []bool{true, false} {
		Parse("prior.yml", []byte(PriorFiles[i]), strict, parser.PrometheusSchema, model.UTF8Validation)
	}
}

// Parse runs the file through the same function GlobFinder.Find uses. path is what reports carry.
func Parse(path string, content []byte, strict bool, schema parser.Schema, names model.ValidationScheme) (entries []discovery.Entry, crash *Crash) {
	defer catch("parse", &crash)
	p := parser.NewParser(strict, schema, names)
	el, err := discovery.VerifReadRules(path, path, bytes.NewReader(content), p, nil)
	if err != nil {
		panic("readRules returned an error: " + err.Error())
	}
	for _, e := range el {
		e.State = discovery.Noop
		if len(e.ModifiedLines) == 0 {
			e.ModifiedLines = e.Rule.Lines.Expand()
		}
		entries = append(entries, e)
	}
	return entries, nil
}

// DefaultConfig is what pint uses when no config file exists.
func DefaultConfig() config.Config {
	cfg, _, err := config.Load("/nonexistent/.pint.hcl", false)
	if err != nil {
		panic(err)
	}
	return cfg
}

// LoadConfig writes text to the scratch dir and loads it like `pint -c`.
func LoadConfig(text string) (config.Config, error) {
	p := WriteFile("pint.hcl", []byte(text))
	cfg, _, err := config.Load(p, true)
	return cfg, err
}

var registry = prometheus.NewRegistry()

// Generator builds the static Prometheus servers of a config (none for offline configs).
func Generator(cfg config.Config) *config.PrometheusGenerator {
	gen := config.NewPrometheusGenerator(cfg, prometheus.NewRegistry())
	if err := gen.GenerateStatic(); err != nil {
		panic(err)
	}
	return gen
}

// Lint applies scan.go's job loop sequentially: same skip conditions, same Report construction.
func Lint(ctx context.Context, cmd config.ContextCommandVal, cfg config.Config, gen *config.PrometheusGenerator, entries []discovery.Entry) (reports []reporter.Report, crash *Crash) {
	defer catch("check", &crash)
	ctx = context.WithValue(ctx, config.CommandKey, cmd)
	ctx = context.WithValue(ctx, promapi.AllPrometheusServers, gen.Servers())
	for _, s := range cfg.Check {
		settings, _ := s.Decode()
		ctx = context.WithValue(ctx, checks.SettingsKey(s.Name), settings)
	}
	var summary reporter.Summary
	for _, entry := range entries {
		switch {
		case entry.PathError != nil && entry.State == discovery.Removed:
			continue
		case entry.Rule.Error.Err != nil && entry.State == discovery.Removed:
			continue
		}
		for _, check := range cfg.GetChecksForEntry(ctx, gen, entry) {
			for _, problem := range check.Check(ctx, entry, entries) {
				summary.Report(reporter.Report{
					Path:          entry.Path,
					ModifiedLines: entry.ModifiedLines,
					Rule:          entry.Rule,
					Problem:       problem,
					Owner:         entry.Owner,
				})
			}
		}
	}
	return summary.Reports(), nil
}

type Rendered struct {
	Console, ConsoleColor, JSON, Checkstyle, TeamCity string
}

// Render sorts, dedups and pushes the reports through every output format.
func Render(reports []reporter.Report, minSeverity checks.Severity, showDups bool) (out Rendered, summary reporter.Summary, err error, crash *Crash) {
	defer catch("render", &crash)
	summary = reporter.NewSummary(append([]reporter.Report(nil), reports...))
	summary.SortReports()
	summary.Dedup()
	var b1, b2, b3, b4, b5 bytes.Buffer
	steps := []struct {
		name string
		rep  reporter.Reporter
	}{
		{"console", reporter.NewConsoleReporter(&b1, minSeverity, true, showDups)},
		{"console-color", reporter.NewConsoleReporter(&b2, minSeverity, false, showDups)},
		{"json", reporter.NewJSONReporter(&b3)},
		{"checkstyle", reporter.NewCheckStyleReporter(&b4)},
		{"teamcity", reporter.NewTeamCityReporter(&b5)},
	}
	for _, s := range steps {
		if e := s.rep.Submit(summary); e != nil {
			return out, summary, fmt.Errorf("%s: %w", s.name, e), nil
		}
	}
	out = Rendered{b1.String(), b2.String(), b3.String(), b4.String(), b5.String()}
	return out, summary, nil, nil
}

// Field is one extracted rule field.
type Field struct {
	Name string
	Node *parser.YamlNode
}

// Fields lists every YAML scalar pint extracted from a rule, in a fixed order.
func Fields(r parser.Rule) (out []Field) {
	addMap := func(prefix string, m *parser.YamlMap) {
		if m == nil {
			return
		}
		for i, kv := range m.Items {
			out = append(out, Field{fmt.Sprintf("%s[%d].key", prefix, i), kv.Key}, Field{fmt.Sprintf("%s[%d].value", prefix, i), kv.Value})
		}
	}
	if r.RecordingRule != nil {
		out = append(out, Field{"record", &r.RecordingRule.Record}, Field{"expr", r.RecordingRule.Expr.Value})
		addMap("labels", r.RecordingRule.Labels)
	}
	if r.AlertingRule != nil {
		out = append(out, Field{"alert", &r.AlertingRule.Alert}, Field{"expr", r.AlertingRule.Expr.Value})
		if r.AlertingRule.For != nil {
			out = append(out, Field{"for", r.AlertingRule.For})
		}
		if r.AlertingRule.KeepFiringFor != nil {
			out = append(out, Field{"keep_firing_for", r.AlertingRule.KeepFiringFor})
		}
		addMap("labels", r.AlertingRule.Labels)
		addMap("annotations", r.AlertingRule.Annotations)
	}
	return out
}

// Detailed is a report together with the String() of the check instance that produced it.
type Detailed struct {
	Report reporter.Report
	Check  string
}

// LintDetailed is Lint plus per-report attribution to the check instance.
func LintDetailed(ctx context.Context, cmd config.ContextCommandVal, cfg config.Config, gen *config.PrometheusGenerator, entries []discovery.Entry) (out []Detailed, crash *Crash) {
	defer catch("check", &crash)
	ctx = context.WithValue(ctx, config.CommandKey, cmd)
	ctx = context.WithValue(ctx, promapi.AllPrometheusServers, gen.Servers())
	for _, s := range cfg.Check {
		settings, _ := s.Decode()
		ctx = context.WithValue(ctx, checks.SettingsKey(s.Name), settings)
	}
	var summary reporter.Summary
	for _, entry := range entries {
		switch {
		case entry.PathError != nil && entry.State == discovery.Removed:
			continue
		case entry.Rule.Error.Err != nil && entry.State == discovery.Removed:
			continue
		}
		for _, check := range cfg.GetChecksForEntry(ctx, gen, entry) {
			for _, problem := range check.Check(ctx, entry, entries) {
				before := len(summary.Reports())
				summary.Report(reporter.Report{Path: entry.Path, ModifiedLines: entry.ModifiedLines, Rule: entry.Rule, Problem: problem, Owner: entry.Owner})
				if rs := summary.Reports(); len(rs) > before {
					out = append(out, Detailed{Report: rs[len(rs)-1], Check: check.String()})
				}
			}
		}
	}
	return out, nil
}

// RawReports returns the stream of reports exactly as scanWorker would send them to the results
// channel (one per problem, in job order), before Summary.Report() merges anything.
func RawReports(ctx context.Context, cmd config.ContextCommandVal, cfg config.Config, gen *config.PrometheusGenerator, entries []discovery.Entry) (out []reporter.Report, crash *Crash) {
	defer catch("check", &crash)
	ctx = context.WithValue(ctx, config.CommandKey, cmd)
	ctx = context.WithValue(ctx, promapi.AllPrometheusServers, gen.Servers())
	for _, s := range cfg.Check {
		settings, _ := s.Decode()
		ctx = context.WithValue(ctx, checks.SettingsKey(s.Name), settings)
	}
	for _, entry := range entries {
		switch {
		case entry.PathError != nil && entry.State == discovery.Removed:
			continue
		case entry.Rule.Error.Err != nil && entry.State == discovery.Removed:
			continue
		}
		for _, check := range cfg.GetChecksForEntry(ctx, gen, entry) {
			for _, problem := range check.Check(ctx, entry, entries) {
				out = append(out, reporter.Report{Path: entry.Path, ModifiedLines: entry.ModifiedLines, Rule: entry.Rule, Problem: problem, Owner: entry.Owner})
			}
		}
	}
	return out, nil
}
