// Package c11perm holds the C11 "permutations" space and the outcome function shared with the scheduler
// space (which has to live in package main of cmd/pint). DESIGN.md §2 C11.
// Space "permutations": every arrival order of real report streams through Summary.Report -> SortReports ->
// Dedup -> renderers -> fail-on counts must give one outcome.
package c11perm

import (
	"context"
	"fmt"
	"strings"

	"github.com/prometheus/common/model"

	"github.com/cloudflare/pint/internal/checks"
	"github.com/cloudflare/pint/internal/config"
	"github.com/cloudflare/pint/internal/parser"
	"github.com/cloudflare/pint/internal/reporter"
	"github.com/cloudflare/pint/verifharness/explore"
	"github.com/cloudflare/pint/verifharness/lib/pipeline"
)

// config with near-duplicate checks: same check at two severities, two checks whose problems differ in
// Details only, two aggregate checks on one expression
const tieConfig = `
rule {
  label "team" {
    required = true
    severity = "warning"
  }
}
rule {
  label "team" {
    required = true
    value    = "(sre|dev)"
    severity = "bug"
  }
}
rule {
  label "owner" {
    required = true
    comment  = "first comment"
  }
}
rule {
  label "owner" {
    required = true
    value    = ".+"
    comment  = "second comment"
  }
}
rule {
  aggregate ".+" {
    keep = ["job"]
  }
  aggregate ".+" {
    keep     = ["job"]
    severity = "bug"
    comment  = "must keep job"
  }
  annotation "summary" {
    required = true
  }
}
`

var files = []string{
	// one alert without labels: team twice (severities), owner twice (details)
	"groups:\n- name: g\n  rules:\n  - alert: A\n    expr: up == 0\n    for: 5m\n    annotations:\n      summary: x\n",
	// two identical rules: foldable duplicates
	"groups:\n- name: g\n  rules:\n  - alert: A\n    expr: up{job=~\"x\"} == 0\n    for: 5m\n    labels:\n      team: sre\n      owner: bob\n  - alert: B\n    expr: up{job=~\"x\"} == 0\n    for: 5m\n    labels:\n      team: sre\n      owner: bob\n",
	// aggregation with two checks on one expression + regexp twice in one expr
	"groups:\n- name: g\n  rules:\n  - record: a:b\n    expr: sum(up{job=~\"x\", instance=~\"y\"}) without (job)\n    labels:\n      team: sre\n      owner: bob\n",
	// same problem on the same rule from one check twice (two regexp matchers) and a syntax error rule
	"groups:\n- name: g\n  rules:\n  - record: c:d\n    expr: sum(foo{a=~\"x\"}) by (job) / sum(bar{a=~\"x\"}) by (job)\n    labels:\n      team: sre\n      owner: bob\n  - record: e:f\n    expr: sum(\n",
	// recording rule without labels + alert without labels
	"groups:\n- name: g\n  rules:\n  - record: g:h\n    expr: sum(up) by (job)\n  - alert: C\n    expr: up\n",
}

var (
	streams [][]reporter.Report
	paths   []string
)

func setup(tier string) {
	cfg, err := pipeline.LoadConfig(tieConfig)
	if err != nil {
		panic(err)
	}
	gen := pipeline.Generator(cfg)
	maxN := 7
	if tier == "thorough" {
		maxN = 8
	}
	for i, f := range files {
		p := pipeline.WriteFile(fmt.Sprintf("f%d.yml", i), []byte(f))
		entries, crash := pipeline.Parse(p, []byte(f), true, parser.PrometheusSchema, model.UTF8Validation)
		if crash != nil {
			panic(crash.Value)
		}
		rs, crash := pipeline.RawReports(context.Background(), config.LintCommand, cfg, gen, entries)
		if crash != nil {
			panic(crash.Value)
		}
		if len(rs) > maxN {
			rs = rs[:maxN]
		}
		streams = append(streams, rs)
		paths = append(paths, p)
	}
}

func outcome(rs []reporter.Report) (string, string) { return outcomeOf(rs, true) }

// outcomeOf renders a report list. collect=true passes it through Summary.Report first (what checkRules'
// collector does with an arrival stream); collect=false takes the list as the summary of a finished
// checkRules run, without folding anything again.
func outcomeOf(rs []reporter.Report, collect bool) (string, string) {
	var s reporter.Summary
	if collect {
		for _, r := range rs {
			s.Report(r)
		}
	} else {
		s = reporter.NewSummary(rs)
	}
	out, sum, err, crash := pipeline.Render(s.Reports(), checks.Information, false)
	if crash != nil {
		return "", "render crash: " + crash.Value
	}
	if err != nil {
		return "", "render error: " + err.Error()
	}
	out2, _, _, _ := pipeline.Render(s.Reports(), checks.Information, true)
	var sb strings.Builder
	sb.WriteString(out.Console + "\n--json--\n" + out.JSON + "\n--checkstyle--\n" + out.Checkstyle + "\n--teamcity--\n" + out.TeamCity + "\n--console-dups--\n" + out2.Console)
	by := sum.CountBySeverity()
	for _, sev := range []checks.Severity{checks.Information, checks.Warning, checks.Bug, checks.Fatal} {
		fail := 0
		for s2, n := range by {
			if s2 >= sev {
				fail += n
			}
		}
		fmt.Fprintf(&sb, "\nfail-on=%s exit=%v count=%d", sev, fail > 0, fail)
	}
	return sb.String(), ""
}

func permutations(c *explore.Chooser) *explore.Case {
	fi := c.Free(len(streams), "file")
	st := streams[fi]
	n := len(st)
	if n < 2 {
		return &explore.Case{Skip: true}
	}
	// Lehmer code -> permutation
	pool := make([]int, n)
	for i := range pool {
		pool[i] = i
	}
	var perm []int
	for i := 0; i < n; i++ {
		k := c.Free(len(pool), fmt.Sprintf("p%d", i))
		perm = append(perm, pool[k])
		pool = append(pool[:k], pool[k+1:]...)
	}
	ordered := make([]reporter.Report, n)
	for i, p := range perm {
		ordered[i] = st[p]
	}
	ref, herr := outcome(append([]reporter.Report(nil), st...))
	cs := &explore.Case{Input: map[string]any{"file": files[fi], "arrival_order": perm, "stream_length": n}}
	if herr != "" {
		cs.Violate("harness:"+herr, herr, nil)
		return cs
	}
	got, herr := outcome(ordered)
	if herr != "" {
		cs.Violate("order-dependent crash", herr, cs.Input)
		return cs
	}
	cs.Outcome = fmt.Sprintf("file=%d", fi)
	if got != ref {
		// which part differs
		what := "console/json output"
		if tail(got) != tail(ref) {
			what = "problem counts / exit status"
		}
		cs.Violate(fmt.Sprintf("arrival-order-changes-result file=%d part=%s", fi, what),
			fmt.Sprintf("reports arriving in order %v give a different %s than arrival in job order", perm, what),
			map[string]any{"input": cs.Input, "in_job_order": tail(ref), "in_this_order": tail(got), "output_job_order": head(ref), "output_this_order": head(got)})
	}
	return cs
}

func tail(s string) string {
	i := strings.Index(s, "\nfail-on=")
	if i < 0 {
		return ""
	}
	return s[i:]
}

func head(s string) string {
	i := strings.Index(s, "\n--json--")
	if i < 0 {
		return s
	}
	return s[:i]
}

// TieConfig is the configuration with near-duplicate check instances.
const TieConfig = tieConfig

// Files are the rule files built to contain ties.
var Files = files

// Outcome renders a report stream the way lint/ci do and appends the fail-on verdicts.
func Outcome(rs []reporter.Report) (string, string) { return outcome(rs) }

// OutcomeOfSummary renders the reports of a finished checkRules run as they are.
func OutcomeOfSummary(rs []reporter.Report) (string, string) { return outcomeOf(rs, false) }

// Tail returns the counts/exit part of an outcome.
func Tail(s string) string { return tail(s) }

// Space is the permutations space.
func Space() *explore.Space {
	return &explore.Space{Name: "permutations", Body: permutations, Setup: setup, Bound: func(string) int { return -1 }}
}

const Rule = "report streams produced by the real checks on 5 files built to contain sort-key ties and near-duplicates (one check at two severities, problems differing in Details only, foldable duplicates across rules, one check firing twice on a rule) under a config with near-duplicate check instances; for each stream of n<=7 (thorough 8) reports ALL n! arrival orders go through Summary.Report -> SortReports -> Dedup -> console/JSON/checkstyle/TeamCity renderers -> fail-on counts and must give the outcome of job order"
