// Package promqlsim evaluates PromQL with the vendored Prometheus engine over a small in-memory database.
// The storage (60 lines) is ours and part of the trusted base; promqltest/teststorage cannot be built offline.
package promqlsim

import (
	"context"
	"sort"
	"time"

	"github.com/prometheus/prometheus/model/histogram"
	"github.com/prometheus/prometheus/model/labels"
	"github.com/prometheus/prometheus/promql"
	"github.com/prometheus/prometheus/storage"
	"github.com/prometheus/prometheus/tsdb/chunkenc"
	"github.com/prometheus/prometheus/tsdb/chunks"
	"github.com/prometheus/prometheus/util/annotations"
)

type sample struct {
	t int64
	f float64
}

func (s sample) T() int64                      { return s.t }
func (s sample) F() float64                    { return s.f }
func (s sample) H() *histogram.Histogram       { return nil }
func (s sample) FH() *histogram.FloatHistogram { return nil }
func (s sample) Type() chunkenc.ValueType      { return chunkenc.ValFloat }
func (s sample) Copy() chunks.Sample           { return s }

// Series is one time series: samples at the given millisecond timestamps.
type Series struct {
	Labels  labels.Labels
	Samples []Point
}

type Point struct {
	T int64 // ms
	V float64
}

// DB is a set of series.
type DB []Series

func (db DB) Querier(mint, maxt int64) (storage.Querier, error) {
	return querier{db: db, mint: mint, maxt: maxt}, nil
}

type querier struct {
	db         DB
	mint, maxt int64
}

func (q querier) Select(_ context.Context, sortSeries bool, _ *storage.SelectHints, matchers ...*labels.Matcher) storage.SeriesSet {
	var out []storage.Series
	for _, s := range q.db {
		ok := true
		for _, m := range matchers {
			if !m.Matches(s.Labels.Get(m.Name)) {
				ok = false
				break
			}
		}
		if !ok {
			continue
		}
		var smp []chunks.Sample
		for _, p := range s.Samples {
			if p.T >= q.mint && p.T <= q.maxt {
				smp = append(smp, sample{p.T, p.V})
			}
		}
		out = append(out, storage.NewListSeries(s.Labels, smp))
	}
	if sortSeries {
		sort.Slice(out, func(i, j int) bool { return labels.Compare(out[i].Labels(), out[j].Labels()) < 0 })
	}
	return &seriesSet{series: out, idx: -1}
}

func (q querier) LabelValues(context.Context, string, *storage.LabelHints, ...*labels.Matcher) ([]string, annotations.Annotations, error) {
	return nil, nil, nil
}

func (q querier) LabelNames(context.Context, *storage.LabelHints, ...*labels.Matcher) ([]string, annotations.Annotations, error) {
	return nil, nil, nil
}

func (q querier) Close() error { return nil }

type seriesSet struct {
	series []storage.Series
	idx    int
}

func (s *seriesSet) Next() bool                        { s.idx++; return s.idx < len(s.series) }
func (s *seriesSet) At() storage.Series                { return s.series[s.idx] }
func (s *seriesSet) Err() error                        { return nil }
func (s *seriesSet) Warnings() annotations.Annotations { return nil }

// NewEngine returns an engine configured like a default Prometheus server.
func NewEngine() *promql.Engine {
	return promql.NewEngine(promql.EngineOpts{
		MaxSamples:           1_000_000,
		Timeout:              time.Minute,
		LookbackDelta:        5 * time.Minute,
		EnableAtModifier:     true,
		EnableNegativeOffset: true,
		NoStepSubqueryIntervalFn: func(int64) int64 { return 60_000 },
	})
}

// Instant evaluates expr at ts. The result is a vector (scalars are turned into one label-less sample).
func Instant(e *promql.Engine, db DB, expr string, ts time.Time) (promql.Vector, error) {
	q, err := e.NewInstantQuery(context.Background(), db, nil, expr, ts)
	if err != nil {
		return nil, err
	}
	defer q.Close()
	res := q.Exec(context.Background())
	if res.Err != nil {
		return nil, res.Err
	}
	switch v := res.Value.(type) {
	case promql.Vector:
		out := make(promql.Vector, len(v))
		copy(out, v)
		return out, nil
	case promql.Scalar:
		return promql.Vector{{T: v.T, F: v.V, Metric: labels.EmptyLabels()}}, nil
	case promql.Matrix:
		var out promql.Vector
		for _, s := range v {
			if len(s.Floats) > 0 {
				out = append(out, promql.Sample{Metric: s.Metric, T: s.Floats[len(s.Floats)-1].T, F: s.Floats[len(s.Floats)-1].F})
			}
		}
		return out, nil
	}
	return nil, nil
}

// Range evaluates a range query and returns the matrix.
func Range(e *promql.Engine, db DB, expr string, start, end time.Time, step time.Duration) (promql.Matrix, error) {
	q, err := e.NewRangeQuery(context.Background(), db, nil, expr, start, end, step)
	if err != nil {
		return nil, err
	}
	defer q.Close()
	res := q.Exec(context.Background())
	if res.Err != nil {
		return nil, res.Err
	}
	m, _ := res.Value.(promql.Matrix)
	out := make(promql.Matrix, len(m))
	for i, s := range m {
		out[i] = promql.Series{Metric: s.Metric, Floats: append([]promql.FPoint(nil), s.Floats...)}
	}
	return out, nil
}

// Steady builds a series with one sample per minute over [from, to] whose value is base + minute index
// (monotone, so rate() is defined and positive) or constant when rising is false.
func Steady(ls labels.Labels, from, to time.Time, base float64, rising bool) Series {
	s := Series{Labels: ls}
	i := 0
	for t := from; !t.After(to); t = t.Add(time.Minute) {
		v := base
		if rising {
			v += float64(i)
		}
		s.Samples = append(s.Samples, Point{T: t.UnixMilli(), V: v})
		i++
	}
	return s
}
