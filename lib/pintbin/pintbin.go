// Package pintbin runs the real pint binary (built from the current tree, no overlay) as a process.
package pintbin

import (
	"bytes"
	"encoding/json"
	"os"
	"os/exec"
	"path/filepath"
	"strings"
)

type JSONReport struct {
	Path     string `json:"path"`
	Owner    string `json:"owner,omitempty"`
	Reporter string `json:"reporter"`
	Problem  string `json:"problem"`
	Details  string `json:"details,omitempty"`
	Severity string `json:"severity"`
	Lines    []int  `json:"lines"`
}

type Result struct {
	Exit     int
	Stderr   string
	Reports  []JSONReport
	HasJSON  bool
	ErrLine  string // the err="..." payload of the final "Execution completed with error(s)" line, if any
	Panicked bool
}

func Binary() string {
	if p := os.Getenv("VERIF_PINT"); p != "" {
		return p
	}
	return filepath.Join(os.Getenv("VERIF_DIR"), ".build", "pint", "pint")
}

// Scratch returns a fresh scratch directory on tmpfs.
func Scratch(prefix string) string {
	base := "/dev/shm"
	if _, err := os.Stat(base); err != nil {
		base = os.TempDir()
	}
	d, err := os.MkdirTemp(base, "verif-"+prefix+"-")
	if err != nil {
		panic(err)
	}
	return d
}

// Run executes pint in dir. If jsonFlagPos >= 0 the args must already contain "--json <file>";
// the caller names the file via jsonPath ("" = none).
func Run(dir string, jsonPath string, env []string, args ...string) Result {
	cmd := exec.Command(Binary(), args...)
	cmd.Dir = dir
	cmd.Env = append([]string{
		"PATH=" + os.Getenv("PATH"), "HOME=" + dir, "GIT_CONFIG_NOSYSTEM=1", "GIT_CONFIG_GLOBAL=/dev/null",
		"NO_COLOR=1", "TZ=UTC", "LC_ALL=C",
	}, env...)
	var stderr, stdout bytes.Buffer
	cmd.Stderr = &stderr
	cmd.Stdout = &stdout
	err := cmd.Run()
	r := Result{Stderr: stderr.String()}
	if err != nil {
		if ee, ok := err.(*exec.ExitError); ok {
			r.Exit = ee.ExitCode()
		} else {
			r.Exit = -1
			r.Stderr += "\nexec error: " + err.Error()
		}
	}
	if strings.Contains(r.Stderr, "\ngoroutine ") && (strings.Contains(r.Stderr, "panic:") || strings.Contains(r.Stderr, "fatal error:")) {
		r.Panicked = true
	}
	if i := strings.LastIndex(r.Stderr, `msg="Execution completed with error(s)" err=`); i >= 0 {
		l := r.Stderr[i+len(`msg="Execution completed with error(s)" err=`):]
		if j := strings.IndexByte(l, '\n'); j >= 0 {
			l = l[:j]
		}
		r.ErrLine = l
	}
	if jsonPath != "" {
		p := jsonPath
		if !filepath.IsAbs(p) {
			p = filepath.Join(dir, p)
		}
		if b, err := os.ReadFile(p); err == nil {
			if json.Unmarshal(b, &r.Reports) == nil {
				r.HasJSON = true
			}
		}
	}
	return r
}
