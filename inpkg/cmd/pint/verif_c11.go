//go:build verif

package main

// C11 harness entry point inside package main of cmd/pint (the real checkRules is unexported). Activated by
// VERIF_HARNESS=c11; scan.go is replaced in this build by its scheduler-shim rewrite (harness/c11/prebuild.sh).

import (
	"context"
	"fmt"
	"io"
	"log/slog"
	"os"
	"strings"

	"github.com/prometheus/client_golang/prometheus"
	"github.com/prometheus/common/model"

	"github.com/cloudflare/pint/internal/config"
	"github.com/cloudflare/pint/internal/discovery"
	"github.com/cloudflare/pint/internal/parser"
	"github.com/cloudflare/pint/internal/reporter"
	"github.com/cloudflare/pint/verifharness/explore"
	"github.com/cloudflare/pint/verifharness/lib/c11perm"
	"github.com/cloudflare/pint/verifharness/lib/pipeline"
	"github.com/cloudflare/pint/verifharness/rt"
)

func init() {
	if os.Getenv("VERIF_HARNESS") != "c11" {
		return
	}
	slog.SetDefault(slog.New(slog.NewTextHandler(io.Discard, nil)))
	verifC11Main()
	os.Exit(0)
}

type verifC11Env struct {
	cfg     config.Config
	gen     *config.PrometheusGenerator
	entries [][]discovery.Entry
	ref     []string
}

var verifC11 verifC11Env

func verifC11Setup(string) {
	// the tie configuration plus a block whose check is a different instance (it also constrains the value) but
	// says exactly the same about a rule without the label: two different jobs then produce identical reports,
	// which only the collector can fold
	dup := "\nrule {\n  label \"team\" {\n    required = true\n    value    = \".+\"\n    severity = \"warning\"\n  }\n}\n"
	cfg, err := pipeline.LoadConfig(c11perm.TieConfig + dup + "\nchecks {\n  enabled = [\"rule/label\", \"promql/regexp\", \"promql/syntax\"]\n}\n")
	if err != nil {
		panic(err)
	}
	verifC11.cfg = cfg
	verifC11.gen = config.NewPrometheusGenerator(cfg, prometheus.NewRegistry())
	for i, f := range []string{c11perm.Files[0], c11perm.Files[1], c11perm.Files[3]} {
		p := pipeline.WriteFile(fmt.Sprintf("s%d.yml", i), []byte(f))
		entries, crash := pipeline.Parse(p, []byte(f), true, parser.PrometheusSchema, model.UTF8Validation)
		if crash != nil {
			panic(crash.Value)
		}
		verifC11.entries = append(verifC11.entries, entries)
		verifC11.ref = append(verifC11.ref, "")
	}
}

// verifC11Reference is the outcome of the real checkRules with one worker under the default schedule.
func verifC11Reference(fi int) (string, string) {
	if verifC11.ref[fi] != "" {
		return verifC11.ref[fi], ""
	}
	ctx := context.WithValue(context.Background(), config.CommandKey, config.LintCommand)
	var sum reporter.Summary
	var err error
	_, reason := rt.RunOpt(explore.NewReplay(nil, false), rt.Options{Horizon: 50000, CostFree: true}, func() {
		sum, err = checkRules(ctx, 1, true, verifC11.gen, verifC11.cfg, verifC11.entries[fi])
	})
	if reason != "" {
		return "", "single-worker run under the default schedule does not complete: " + reason
	}
	if err != nil {
		return "", err.Error()
	}
	out, herr := c11perm.OutcomeOfSummary(sum.Reports())
	if herr != "" {
		return "", herr
	}
	verifC11.ref[fi] = out
	return out, ""
}

func verifC11Schedules(c *explore.Chooser) *explore.Case {
	fi := c.Free(len(verifC11.entries), "file")
	workers := 1 + c.Free(3, "workers")
	entries := verifC11.entries[fi]
	if _, rerr := verifC11Reference(fi); rerr != "" {
		cs := &explore.Case{Input: map[string]any{"file": fi}}
		cs.Violate("schedules: reference run fails", rerr, nil)
		return cs
	}
	var summary reporter.Summary
	var err error
	ctx := context.WithValue(context.Background(), config.CommandKey, config.LintCommand)
	sched, reason := rt.RunOpt(c, rt.Options{Horizon: 50000, CostFree: true}, func() {
		summary, err = checkRules(ctx, workers, true, verifC11.gen, verifC11.cfg, entries)
	})
	input := map[string]any{"file": fi, "workers": workers}
	cs := &explore.Case{Input: input}
	ref, _ := verifC11Reference(fi)
	cs.Count("transitions", int64(sched.Points))
	cs.Count("traces_validated_against_impl", 1)
	if reason != "" {
		kind := "deadlock"
		if !strings.HasPrefix(reason, "deadlock") {
			kind = "aborted"
		}
		cs.Violate(fmt.Sprintf("schedules: %s workers=%d", kind, workers), reason, input)
		return cs
	}
	if err != nil {
		cs.Violate("schedules: checkRules error", err.Error(), input)
		return cs
	}
	if un := sched.Unfinished(); len(un) > 0 {
		cs.Violate("schedules: goroutines left behind", fmt.Sprint(un), input)
	}
	var order []string
	for _, r := range summary.Reports() {
		order = append(order, fmt.Sprintf("%s/%s/%s", r.Rule.Name(), r.Problem.Reporter, r.Problem.Severity))
	}
	cs.AddToSet("arrival_orders", fmt.Sprintf("%d:%s", fi, strings.Join(order, ",")))
	got, herr := c11perm.OutcomeOfSummary(summary.Reports())
	if herr != "" {
		cs.Violate("schedules: "+herr, herr, input)
		return cs
	}
	cs.Outcome = fmt.Sprintf("file=%d workers=%d", fi, workers)
	if got != ref {
		what := "console/json output"
		if c11perm.Tail(got) != c11perm.Tail(ref) {
			what = "problem counts / exit status"
		}
		cs.Violate(fmt.Sprintf("schedules: result depends on interleaving file=%d part=%s", fi, what), fmt.Sprintf("checkRules with %d workers under this schedule gives a different %s than with one worker", workers, what), map[string]any{"input": input, "arrival_order": order, "expected": c11perm.Tail(ref), "got": c11perm.Tail(got)})
	}
	return cs
}

func verifC11Main() {
	explore.Main(&explore.Config{
		Property: "C11", Level: "exploration",
		Rule: "space 'permutations': " + c11perm.Rule + "; space 'schedules': the real checkRules (scan.go with its channels, WaitGroup and go statements replaced by scheduler shims) with 1..3 workers on 3 rule files under the tie configuration extended by a block whose check instance differs but reports identically (identical reports from two jobs): every schedule within 2 (thorough 3) departures from the default schedule, with happens-before state caching; oracle: no deadlock, every goroutine finishes, rendered outcome and fail-on verdicts equal those of a free-running single-worker run, and more than one arrival order is observed",
		Assumptions: []string{
			"arrival order at the results channel is the only way scheduling can influence the summary; the permutations space covers all orders of it, the schedules space the fan-out/fan-in itself",
			"data races are outside both spaces: a supplementary free-running pass runs the -race build of pint on the tie files and a stress file; it can only add true alarms (the race detector has no false positives) and its schedules are sampled, not enumerated",
		},
		Spaces: []*explore.Space{
			c11perm.Space(),
			{Name: "schedules", Body: verifC11Schedules, Setup: verifC11Setup, StateCache: true, Bound: func(t string) int {
				if t == "thorough" {
					return 3
				}
				return 2
			}},
		},
		BudgetS: func(t string) int { return 900 },
		Finish: func(t string, agg *explore.Aggregate) ([]explore.Violation, string) {
			if len(agg.Sets["arrival_orders"]) < 4 {
				return nil, fmt.Sprintf("vacuity guard: only %d distinct arrival orders observed in the schedules space", len(agg.Sets["arrival_orders"]))
			}
			return verifC11RacePass(), ""
		},
		Extra: func(string, *explore.Aggregate) map[string]any { return verifRaceStats },
	})
}
