//go:build verif

package main

// Supplementary free-running pass for the "has no data race" clause of C11: the real pint binary built with
// -race lints the C11 tie files plus a stress file (groups with 1..9 group-level labels, several rules per
// group that add labels and use templates) with several --workers values. A cooperative scheduler's hand-offs
// are happens-before edges, so this clause cannot be decided by the schedules space; the race detector reports
// only real races (no false alarms), but the schedules it sees are sampled, not enumerated.

import (
	"bytes"
	"fmt"
	"os"
	"os/exec"
	"path/filepath"
	"regexp"
	"strings"

	"github.com/cloudflare/pint/verifharness/explore"
	"github.com/cloudflare/pint/verifharness/lib/c11perm"
	"github.com/cloudflare/pint/verifharness/lib/pintbin"
)

var verifRaceStats = map[string]any{}

func verifStressFile() string {
	var sb strings.Builder
	sb.WriteString("groups:\n")
	for n := 1; n <= 9; n++ {
		fmt.Fprintf(&sb, "- name: g%d\n  labels:\n", n)
		for i := 0; i < n; i++ {
			fmt.Fprintf(&sb, "    gl%d: v%d\n", i, i)
		}
		sb.WriteString("  rules:\n")
		for r := 0; r < 6; r++ {
			fmt.Fprintf(&sb, "  - alert: A%d_%d\n    expr: up{job=~\"x%d\"} == 0\n    for: 5m\n    labels:\n      own%d: \"{{ $labels.job }}\"\n", n, r, r, r)
			if r%2 == 0 {
				sb.WriteString("      gl0: override\n")
			}
			sb.WriteString("    annotations:\n      summary: \"{{ $labels.instance }} is down\"\n")
		}
		fmt.Fprintf(&sb, "  - record: r%d:sum\n    expr: sum(up) without (job)\n    labels:\n      extra: x\n", n)
	}
	return sb.String()
}

var verifRaceFrame = regexp.MustCompile(`(?m)^  (github\.com/cloudflare/pint/[^\s(]+)\(`)

func verifC11RacePass() []explore.Violation {
	bin := os.Getenv("VERIF_PINT_RACE")
	if bin == "" {
		verifRaceStats["race_pass"] = "skipped: VERIF_PINT_RACE not set"
		return nil
	}
	dir := pintbin.Scratch("c11race")
	defer os.RemoveAll(dir)
	rules := filepath.Join(dir, "rules")
	os.MkdirAll(rules, 0o755)
	for i, f := range c11perm.Files {
		os.WriteFile(filepath.Join(rules, fmt.Sprintf("tie%d.yml", i)), []byte(f), 0o644)
	}
	os.WriteFile(filepath.Join(rules, "stress.yml"), []byte(verifStressFile()), 0o644)
	os.WriteFile(filepath.Join(dir, "pint.hcl"), []byte(c11perm.TieConfig), 0o644)
	runs := 0
	var out []explore.Violation
	seen := map[string]bool{}
	for _, w := range []string{"2", "8", "16"} {
		for rep := 0; rep < 2; rep++ {
			cmd := exec.Command(bin, "--offline", "--workers", w, "-c", "pint.hcl", "lint", "rules")
			cmd.Dir = dir
			cmd.Env = []string{"PATH=" + os.Getenv("PATH"), "HOME=" + dir, "NO_COLOR=1", "TZ=UTC", "GORACE=halt_on_error=0"}
			var buf bytes.Buffer
			cmd.Stderr, cmd.Stdout = &buf, &buf
			cmd.Run()
			runs++
			for _, rep := range strings.Split(buf.String(), "==================") {
				if !strings.Contains(rep, "WARNING: DATA RACE") {
					continue
				}
				var frames []string
				for _, m := range verifRaceFrame.FindAllStringSubmatch(rep, -1) {
					f := m[1]
					if len(frames) == 0 || frames[len(frames)-1] != f {
						frames = append(frames, f)
					}
					if len(frames) == 2 {
						break
					}
				}
				sig := "data-race: " + strings.Join(frames, " / ")
				if !seen[sig] {
					seen[sig] = true
					out = append(out, explore.Violation{Sig: sig, What: "the race detector reports a data race in `pint lint --workers " + w + "` (free-running -race pass)", Detail: map[string]any{"report": rep, "workers": w, "files": "C11 tie files + stress.yml (see verifStressFile)"}})
				}
			}
		}
	}
	verifRaceStats["race_pass"] = fmt.Sprintf("%d free-running runs of the -race pint binary (--workers 2, 8, 16) on the tie files and the stress file: %d distinct races", runs, len(out))
	return out
}
