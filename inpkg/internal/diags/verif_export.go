//go:build verif

package diags

// VerifReadRange exposes readRange: the function InjectDiagnostics uses to map a diagnostic's column
// offsets (into a field's value) onto file positions.
func VerifReadRange(firstColumn, lastColumn int, prs PositionRanges) PositionRanges {
	return readRange(firstColumn, lastColumn, prs)
}
