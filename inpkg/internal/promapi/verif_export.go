//go:build verif

package promapi

import (
	"net/http"
	"sync"
	"time"

	"go.uber.org/ratelimit"
)

// VerifNewPrometheus builds a Prometheus client whose HTTP transport, rate limiter and cache clock are
// owned by the harness.
func VerifNewPrometheus(name, uri string, concurrency int, rt http.RoundTripper, now func() time.Time) *Prometheus {
	prom := NewPrometheus(name, uri, "", nil, time.Hour, concurrency, 100, nil)
	prom.client = http.Client{Transport: rt}
	prom.rateLimiter = ratelimit.NewUnlimited()
	if now != nil {
		prom.cache = newQueryCache(time.Hour, now)
	}
	return prom
}

// VerifShareCache makes other use the same cache as prom (what FailoverGroup.StartWorkers arranges).
func VerifShareCache(prom, other *Prometheus) { other.cache = prom.cache }

// VerifCacheGC runs one garbage collection of the query cache (what the failover group's cleaner does on a timer).
func VerifCacheGC(prom *Prometheus) {
	if prom.cache != nil {
		prom.cache.gc()
	}
}

// VerifCacheLen returns the number of cache entries.
func VerifCacheLen(prom *Prometheus) int {
	if prom.cache == nil {
		return 0
	}
	prom.cache.mu.Lock()
	defer prom.cache.mu.Unlock()
	return len(prom.cache.entries)
}

// VerifLockedKeys returns the keys currently held in the partition locker.
func VerifLockedKeys(prom *Prometheus) (out []string) {
	prom.locker.l.Lock()
	defer prom.locker.l.Unlock()
	for k := range prom.locker.s {
		out = append(out, k)
	}
	return out
}

// VerifFailoverSetClock replaces the clock of the query cache shared by the servers of a failover group
// (call it before the first query).
func VerifFailoverSetClock(fg *FailoverGroup, now func() time.Time) {
	for _, s := range fg.servers {
		if s.cache != nil {
			s.cache.mu.Lock()
			s.cache.now = now
			s.cache.mu.Unlock()
		}
	}
}

// VerifFailoverGC runs one garbage collection of the group's query cache (the cleaner does it every two minutes).
func VerifFailoverGC(fg *FailoverGroup) {
	for _, s := range fg.servers {
		if s.cache != nil {
			s.cache.gc()
			return // the cache is shared
		}
	}
}

// VerifCleanerRounds runs the real background cacheCleaner (as StartWorkers starts it, with a short interval) over
// a cache on a fake clock. In every round one entry is stored with a 1 minute TTL, the clock is advanced by 2
// minutes and the round waits until the cleaner has removed the entry. A round gives up only after a reference
// ticker of the same interval, running in this process at the same time, has fired `patience` times - so a
// starved process cannot be mistaken for a cleaner that stopped. Returns how many rounds saw their entry evicted.
func VerifCleanerRounds(rounds, patience int) (evicted int) {
	var mu sync.Mutex
	now := time.Unix(1700000000, 0)
	cache := newQueryCache(time.Hour, func() time.Time {
		mu.Lock()
		defer mu.Unlock()
		return now
	})
	quit := make(chan bool)
	const interval = 5 * time.Millisecond
	go cacheCleaner(cache, interval, quit)
	defer close(quit)
	for r := 0; r < rounds; r++ {
		key := uint64(1000 + r)
		cache.set(key, r, time.Minute)
		mu.Lock()
		now = now.Add(2 * time.Minute)
		mu.Unlock()
		ref := time.NewTicker(interval)
		gone := false
		for ticks := 0; ticks < patience && !gone; ticks++ {
			<-ref.C
			cache.mu.Lock()
			_, present := cache.entries[key]
			cache.mu.Unlock()
			gone = !present
		}
		ref.Stop()
		if gone {
			evicted++
		}
	}
	return evicted
}

// VerifNewPrometheusTimeout is VerifNewPrometheus with a request timeout of the harness' choice (free-running,
// real-time scenarios).
func VerifNewPrometheusTimeout(name, uri string, concurrency int, rt http.RoundTripper, now func() time.Time, timeout time.Duration) *Prometheus {
	prom := NewPrometheus(name, uri, "", nil, timeout, concurrency, 100, nil)
	prom.client = http.Client{Transport: rt}
	prom.rateLimiter = ratelimit.NewUnlimited()
	prom.cache = newQueryCache(time.Hour, now)
	return prom
}
