//go:build verif

package promapi

import (
	"net/http"
	"time"

	"go.uber.org/ratelimit"
)

// VerifNewPrometheus builds a Prometheus client whose HTTP transport, rate limiter and cache clock are
// owned by the harness.
func VerifNewPrometheus(name, uri string, concurrency int, rt http.RoundTripper, now func() time.Time) *Prometheus {
	prom := NewPrometheus(name, uri, "", nil, time.Hour, concurrency, 100, nil)
	prom.client = http.Client{Transport: rt}
	prom.rateLimiter = ratelimit.NewUnlimited()
	if now != nil {
		prom.cache = newQueryCache(time.Hour, now)
	}
	return prom
}

// VerifShareCache makes other use the same cache as prom (what FailoverGroup.StartWorkers arranges).
func VerifShareCache(prom, other *Prometheus) { other.cache = prom.cache }

// VerifCacheGC runs one garbage collection of the query cache (what the failover group's cleaner does on a timer).
func VerifCacheGC(prom *Prometheus) {
	if prom.cache != nil {
		prom.cache.gc()
	}
}

// VerifCacheLen returns the number of cache entries.
func VerifCacheLen(prom *Prometheus) int {
	if prom.cache == nil {
		return 0
	}
	prom.cache.mu.Lock()
	defer prom.cache.mu.Unlock()
	return len(prom.cache.entries)
}

// VerifLockedKeys returns the keys currently held in the partition locker.
func VerifLockedKeys(prom *Prometheus) (out []string) {
	prom.locker.l.Lock()
	defer prom.locker.l.Unlock()
	for k := range prom.locker.s {
		out = append(out, k)
	}
	return out
}

// VerifFailoverSetClock replaces the clock of the query cache shared by the servers of a failover group
// (call it before the first query).
func VerifFailoverSetClock(fg *FailoverGroup, now func() time.Time) {
	for _, s := range fg.servers {
		if s.cache != nil {
			s.cache.mu.Lock()
			s.cache.now = now
			s.cache.mu.Unlock()
		}
	}
}

// VerifFailoverGC runs one garbage collection of the group's query cache (the cleaner does it every two minutes).
func VerifFailoverGC(fg *FailoverGroup) {
	for _, s := range fg.servers {
		if s.cache != nil {
			s.cache.gc()
			return // the cache is shared
		}
	}
}
