//go:build verif

package parser

import (
	"io"

	"github.com/cloudflare/pint/internal/comments"
	"github.com/cloudflare/pint/internal/diags"
)

// VerifMaskState is the part of ContentReader that decides masking of later lines.
type VerifMaskState struct {
	SkipAll, SkipNext, AutoReset, InBegin bool
}

// VerifMask feeds src through the real ContentReader and returns the masked bytes, the masking state
// after the last line, and what the reader recorded.
func VerifMask(src io.Reader) (out []byte, st VerifMaskState, cs []comments.Comment, ds []diags.Diagnostic, lineno int) {
	cr := newContentReader(src)
	out, _ = io.ReadAll(cr)
	return out, VerifMaskState{cr.skipAll, cr.skipNext, cr.autoReset, cr.inBegin}, cr.comments, cr.diagnostics, cr.lineno
}
