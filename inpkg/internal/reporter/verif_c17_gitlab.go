//go:build verif

package reporter

import (
	"context"
	"encoding/json"
	"fmt"
	"io"
	"net/http"
	"net/http/httptest"
	"os"
	"regexp"
	"sort"
	"strconv"
	"strings"
	"time"
)

// The platform layer of C17: the real GitLabReporter (List / Create / Delete / Summary over HTTP) against a
// stateful fake of the GitLab merge-request discussions API. A discussion is a thread of notes; other people
// reply inside pint's threads and GitLab adds system notes to them ("changed this line in version 2").

// VerifGLNote is one note of a discussion. Author is "pint" or "other".
type VerifGLNote struct {
	Author string
	System bool
	Body   string
	Path   string // "" = no position
	Line   int
}

// VerifGLDisc is one discussion.
type VerifGLDisc struct{ Notes []VerifGLNote }

func (d VerifGLDisc) own() bool {
	if len(d.Notes) == 0 {
		return false
	}
	n := d.Notes[0]
	return n.Author == "pint" && !n.System && n.Path != ""
}

func (d VerifGLDisc) key() string {
	var l []string
	for _, n := range d.Notes {
		l = append(l, fmt.Sprintf("%s|%v|%s|%s|%d", n.Author, n.System, n.Body, n.Path, n.Line))
	}
	return strings.Join(l, "\x01")
}

// normalise sorts discussions and keeps one copy of each distinct discussion that is not pint's: List skips
// every discussion whose first note is not a positioned pint note, so such copies cannot influence a run and
// states that differ only in their multiplicity have the same futures.
func normaliseGL(ds []VerifGLDisc) []VerifGLDisc {
	out := []VerifGLDisc{}
	seen := map[string]bool{}
	for _, d := range ds {
		if len(d.Notes) == 0 {
			continue
		}
		if !d.own() {
			if seen[d.key()] {
				continue
			}
			seen[d.key()] = true
		}
		out = append(out, d)
	}
	sort.Slice(out, func(i, j int) bool { return out[i].key() < out[j].key() })
	return out
}

func canonGL(ds []VerifGLDisc) string {
	var l []string
	for _, d := range ds {
		l = append(l, d.key())
	}
	return strings.Join(l, "\x00")
}

const (
	glPintUser  = 123
	glOtherUser = 321
)

type glFakeNote struct {
	id int
	VerifGLNote
}

type glFakeDisc struct {
	id    string
	notes []glFakeNote
}

type glFake struct {
	discs    []glFakeDisc
	nextID   int
	paths    []string
	created  []VerifComment
	deleted  []VerifComment
	generals []string
	bad      []string
}

var glNoteRe = regexp.MustCompile(`^/api/v4/projects/123/merge_requests/1/discussions/([^/]+)/notes/(\d+)$`)

func (f *glFake) load(ds []VerifGLDisc) {
	f.discs, f.created, f.deleted, f.generals, f.bad = nil, nil, nil, nil, nil
	for _, d := range ds {
		f.nextID++
		fd := glFakeDisc{id: fmt.Sprintf("d%d", f.nextID)}
		for _, n := range d.Notes {
			f.nextID++
			fd.notes = append(fd.notes, glFakeNote{f.nextID, n})
		}
		f.discs = append(f.discs, fd)
	}
}

func (f *glFake) dump() (out []VerifGLDisc) {
	for _, d := range f.discs {
		var vd VerifGLDisc
		for _, n := range d.notes {
			vd.Notes = append(vd.Notes, n.VerifGLNote)
		}
		out = append(out, vd)
	}
	return out
}

func (f *glFake) ServeHTTP(w http.ResponseWriter, r *http.Request) {
	w.Header().Set("Content-Type", "application/json")
	switch {
	case r.URL.Path == "/api/v4/user":
		fmt.Fprintf(w, `{"id": %d}`, glPintUser)
	case r.URL.Path == "/api/v4/projects/123/merge_requests":
		io.WriteString(w, `[{"iid":1}]`)
	case r.URL.Path == "/api/v4/projects/123/merge_requests/1/versions":
		io.WriteString(w, `[{"id": 2,"head_commit_sha": "head","base_commit_sha": "base","start_commit_sha": "start"}]`)
	case r.URL.Path == "/api/v4/projects/123/merge_requests/1/diffs":
		// every file is new in this merge request: all of its lines are added lines
		type df struct {
			Diff    string `json:"diff"`
			NewPath string `json:"new_path"`
			OldPath string `json:"old_path"`
		}
		var l []df
		for _, p := range f.paths {
			d := "@@ -0,0 +1,20 @@\n"
			for i := 1; i <= 20; i++ {
				d += fmt.Sprintf("+line %d\n", i)
			}
			l = append(l, df{d, p, p})
		}
		json.NewEncoder(w).Encode(l)
	case r.URL.Path == "/api/v4/projects/123/merge_requests/1/discussions" && r.Method == http.MethodGet:
		type pos struct {
			BaseSHA  string `json:"base_sha"`
			StartSHA string `json:"start_sha"`
			HeadSHA  string `json:"head_sha"`
			OldPath  string `json:"old_path"`
			NewPath  string `json:"new_path"`
			Type     string `json:"position_type"`
			NewLine  int    `json:"new_line"`
		}
		type author struct {
			ID int `json:"id"`
		}
		type note struct {
			ID       int    `json:"id"`
			System   bool   `json:"system"`
			Author   author `json:"author"`
			Body     string `json:"body"`
			Position *pos   `json:"position,omitempty"`
		}
		type disc struct {
			ID    string `json:"id"`
			Notes []note `json:"notes"`
		}
		l := []disc{}
		for _, d := range f.discs {
			jd := disc{ID: d.id}
			for _, n := range d.notes {
				jn := note{ID: n.id, System: n.System, Body: n.Body, Author: author{glOtherUser}}
				if n.Author == "pint" {
					jn.Author.ID = glPintUser
				}
				if n.Path != "" {
					jn.Position = &pos{"base", "start", "head", n.Path, n.Path, "text", n.Line}
				}
				jd.Notes = append(jd.Notes, jn)
			}
			l = append(l, jd)
		}
		json.NewEncoder(w).Encode(l)
	case r.URL.Path == "/api/v4/projects/123/merge_requests/1/discussions" && r.Method == http.MethodPost:
		var req struct {
			Body     string `json:"body"`
			Position *struct {
				NewPath string `json:"new_path"`
				NewLine int    `json:"new_line"`
				OldLine int    `json:"old_line"`
			} `json:"position"`
		}
		b, _ := io.ReadAll(r.Body)
		if err := json.Unmarshal(b, &req); err != nil {
			f.bad = append(f.bad, "undecodable POST: "+err.Error())
			w.WriteHeader(http.StatusBadRequest)
			return
		}
		if req.Position == nil {
			f.generals = append(f.generals, req.Body)
			io.WriteString(w, `{}`)
			return
		}
		line := req.Position.NewLine
		if line == 0 {
			line = req.Position.OldLine
		}
		f.nextID += 2
		f.discs = append(f.discs, glFakeDisc{id: fmt.Sprintf("d%d", f.nextID-1), notes: []glFakeNote{{f.nextID, VerifGLNote{"pint", false, req.Body, req.Position.NewPath, line}}}})
		f.created = append(f.created, VerifComment{req.Position.NewPath, line, req.Body})
		io.WriteString(w, `{}`)
	case r.Method == http.MethodDelete && glNoteRe.MatchString(r.URL.Path):
		m := glNoteRe.FindStringSubmatch(r.URL.Path)
		nid, _ := strconv.Atoi(m[2])
		for di := range f.discs {
			if f.discs[di].id != m[1] {
				continue
			}
			for ni, n := range f.discs[di].notes {
				if n.id == nid {
					if n.Author != "pint" {
						f.bad = append(f.bad, fmt.Sprintf("deleted a note of another user: %q", n.Body))
					}
					f.deleted = append(f.deleted, VerifComment{n.Path, n.Line, n.Body})
					f.discs[di].notes = append(f.discs[di].notes[:ni], f.discs[di].notes[ni+1:]...)
					if len(f.discs[di].notes) == 0 {
						f.discs = append(f.discs[:di], f.discs[di+1:]...)
					}
					w.WriteHeader(http.StatusNoContent)
					return
				}
			}
		}
		f.bad = append(f.bad, "delete of a note that does not exist: "+r.URL.Path)
		w.WriteHeader(http.StatusNotFound)
	default:
		f.bad = append(f.bad, "unexpected request "+r.Method+" "+r.URL.String())
		w.WriteHeader(http.StatusNotFound)
	}
}

// VerifC17GitLabBFS explores, breadth first and to closure, every discussion-store state reachable from the
// initial stores by run(R) events (the real Submit through the real GitLabReporter over HTTP, R a subset of the
// universe) and by environment events on pint's own threads: reply(i) (another user answers in thread i) and
// system(i) (GitLab appends a system note), at most one of each per thread.
func VerifC17GitLabBFS(universe []Report, initial [][]VerifGLDisc, maxComments int, showDuplicates bool) (res VerifC17Result) {
	fake := &glFake{}
	pathSeen := map[string]bool{}
	for _, r := range universe {
		if !pathSeen[r.Path.SymlinkTarget] {
			pathSeen[r.Path.SymlinkTarget] = true
			fake.paths = append(fake.paths, r.Path.SymlinkTarget)
		}
	}
	srv := httptest.NewServer(fake)
	defer srv.Close()
	type node struct {
		store []VerifGLDisc
		path  []string
	}
	seen := map[string]bool{}
	var queue []node
	for i, st := range initial {
		st = normaliseGL(st)
		if k := canonGL(st); !seen[k] {
			seen[k] = true
			queue = append(queue, node{st, []string{fmt.Sprintf("init%d", i)}})
		}
	}
	summaryOf := func(mask int) Summary {
		var rs []Report
		for i, r := range universe {
			if mask&(1<<i) != 0 {
				rs = append(rs, r)
			}
		}
		s := NewSummary(rs)
		s.SortReports()
		s.Dedup()
		return s
	}
	type outcome struct {
		store            []VerifGLDisc
		created, deleted []VerifComment
		bad              []string
		err              error
	}
	gl, err := NewGitLabReporter("v0", "branch", srv.URL, time.Minute, "token", 123, maxComments)
	if err != nil {
		panic(err)
	}
	run := func(store []VerifGLDisc, mask int) outcome {
		fake.load(store)
		err := Submit(context.Background(), summaryOf(mask), gl, showDuplicates)
		return outcome{fake.dump(), append([]VerifComment(nil), fake.created...), append([]VerifComment(nil), fake.deleted...), append([]string(nil), fake.bad...), err}
	}
	matches := func(c VerifGLNote, p PendingComment) bool {
		return GitLabReporter{}.IsEqual(nil, ExistingComment{path: c.Path, line: c.Line, text: c.Body}, p)
	}
	ownOf := func(ds []VerifGLDisc) (out []VerifGLNote) {
		for _, d := range ds {
			if d.own() {
				out = append(out, d.Notes[0])
			}
		}
		return out
	}
	foreignOf := func(ds []VerifGLDisc) map[string]int {
		m := map[string]int{}
		for _, d := range ds {
			if !d.own() {
				m[d.key()]++
			}
		}
		return m
	}
	uncoveredIn := func(ds []VerifGLDisc, pending []PendingComment) int {
		n := 0
		for _, p := range pending {
			found := false
			for _, c := range ownOf(ds) {
				if matches(c, p) {
					found = true
				}
			}
			if !found {
				n++
			}
		}
		return n
	}
	changes := map[string]int{}             // (state, mask) -> comments created + deleted by that transition
	mustBeFixpoint := map[string][]string{} // (state, mask) -> path that obliges it to change nothing
	for len(queue) > 0 {
		n := queue[0]
		queue = queue[1:]
		if len(n.path) > res.MaxDepth {
			res.MaxDepth = len(n.path)
		}
		VerifTick()
		if len(seen) > 100000 {
			res.Violations = append(res.Violations, VerifC17Violation{Sig: "state-space-does-not-close", What: "more than 100000 distinct stores reached: some run keeps creating comments", Path: n.path})
			break
		}
		if os.Getenv("VERIF_C17_DEBUG") != "" && len(seen)%50 == 0 {
			fmt.Fprintf(dbgFile(), "gitlab bfs: seen=%d queue=%d transitions=%d depth=%d store=%d\n", len(seen), len(queue), res.Transitions, len(n.path), len(n.store))
		}
		viol := func(ev, sig, what string) {
			res.Violations = append(res.Violations, VerifC17Violation{Sig: sig, What: what, Path: append(append([]string{}, n.path...), ev)})
		}
		push := func(ev string, st []VerifGLDisc) {
			st = normaliseGL(st)
			if k := canonGL(st); !seen[k] {
				seen[k] = true
				queue = append(queue, node{st, append(append([]string{}, n.path...), ev)})
				if res.SampleState == "" && len(st) > 2 {
					res.SampleState = fmt.Sprintf("%d discussions, first with %d notes", len(st), len(st[0].Notes))
				}
			}
		}
		// environment events
		for i, d := range n.store {
			if !d.own() {
				continue
			}
			hasReply, hasSystem := false, false
			for _, x := range d.Notes[1:] {
				if x.System {
					hasSystem = true
				} else {
					hasReply = true
				}
			}
			add := func(ev string, note VerifGLNote) {
				res.Transitions++
				st := append([]VerifGLDisc(nil), n.store...)
				st[i] = VerifGLDisc{append(append([]VerifGLNote(nil), d.Notes...), note)}
				push(fmt.Sprintf("%s(thread %s:%d)", ev, d.Notes[0].Path, d.Notes[0].Line), st)
			}
			if hasReply || hasSystem {
				continue // at most one note that is not pint's per thread
			}
			if !hasReply {
				add("reply", VerifGLNote{"other", false, "thanks, looking into it", d.Notes[0].Path, d.Notes[0].Line})
			}
			if !hasSystem {
				add("system-note", VerifGLNote{"other", true, "changed this line in version 2 of the diff", "", 0})
			}
		}
		// runs
		for mask := 0; mask < 1<<len(universe); mask++ {
			ev := fmt.Sprintf("run(%0*b)", len(universe), mask)
			res.Transitions++
			violsBefore := len(res.Violations)
			pending := makeComments(summaryOf(mask), showDuplicates)
			pre := ownOf(n.store)
			needed := uncoveredIn(n.store, pending)
			o := run(n.store, mask)
			if o.err != nil {
				viol(ev, "submit-error", o.err.Error())
				continue
			}
			for _, b := range o.bad {
				viol(ev, "bad-api-use", b)
			}
			if len(o.created) > maxComments {
				viol(ev, "budget-exceeded", fmt.Sprintf("%d comments created in one run, maxComments=%d", len(o.created), maxComments))
			}
			for _, c := range o.created {
				for _, old := range pre {
					if old.Path == c.Path && old.Line == c.Line && strings.Trim(old.Body, "\n") == strings.Trim(c.Text, "\n") {
						viol(ev, "duplicate-comment-created", fmt.Sprintf("created a comment equal to pint's existing one at %s:%d", c.Path, c.Line))
					}
				}
			}
			for i := range o.created {
				for j := 0; j < i; j++ {
					if o.created[i] == o.created[j] {
						viol(ev, "same-comment-created-twice", fmt.Sprintf("two identical comments created at %s:%d", o.created[i].Path, o.created[i].Line))
					}
				}
			}
			uncovered := uncoveredIn(o.store, pending)
			deferred := needed - maxComments
			if deferred < 0 {
				deferred = 0
			}
			if uncovered > deferred {
				viol(ev, "problem-left-uncovered", fmt.Sprintf("%d pending comments are missing after the run although only %d may be deferred by the budget (needed=%d, maxComments=%d)", uncovered, deferred, needed, maxComments))
			}
			for _, c := range ownOf(o.store) {
				stale := true
				for _, p := range pending {
					if matches(c, p) {
						stale = false
					}
				}
				if stale {
					viol(ev, "stale-comment-survives", fmt.Sprintf("pint's comment at %s:%d matches no problem and was not removed", c.Path, c.Line))
				}
			}
			for _, c := range o.deleted {
				for _, p := range pending {
					if matches(VerifGLNote{Path: c.Path, Line: c.Line, Body: c.Text}, p) {
						viol(ev, "live-comment-deleted", fmt.Sprintf("deleted the comment at %s:%d that still corresponds to a problem", c.Path, c.Line))
					}
				}
			}
			// discussions that are not pint's stay as they are (a thread pint deleted its note from may turn into one)
			before, after := foreignOf(n.store), foreignOf(o.store)
			for k, cnt := range before {
				if after[k] < cnt {
					viol(ev, "foreign-discussion-touched", "a discussion that is not pint's was changed or removed")
				}
			}
			// idempotence: when nothing is deferred, run(mask) from the state reached must create and delete
			// nothing. That run is itself a transition of the search (every state gets every run event), so the
			// obligation is recorded and discharged when (or if already) that transition is executed.
			afterKey := canonGL(normaliseGL(o.store))
			changes[canonGL(n.store)+"\x02"+strconv.Itoa(mask)] = len(o.created) + len(o.deleted)
			if uncovered == 0 {
				key := afterKey + "\x02" + strconv.Itoa(mask)
				if ch, done := changes[key]; done {
					if ch != 0 {
						viol(ev, "not-idempotent", fmt.Sprintf("repeating the run with unchanged results created/deleted %d comments", ch))
					}
				} else {
					mustBeFixpoint[key] = append(append([]string{}, n.path...), ev)
				}
			} else {
				// convergence under the budget: repeated runs cover everything within `needed` more runs
				cur := o.store
				for steps, left := 0, uncovered; left > 0; {
					steps++
					if steps > needed {
						viol(ev, "does-not-converge", fmt.Sprintf("still %d comments missing after %d repeated runs", left, steps))
						break
					}
					again := run(cur, mask)
					if again.err != nil {
						viol(ev, "submit-error", again.err.Error())
						break
					}
					cur = again.store
					left = uncoveredIn(cur, pending)
				}
			}
			if p, owed := mustBeFixpoint[canonGL(n.store)+"\x02"+strconv.Itoa(mask)]; owed && len(o.created)+len(o.deleted) != 0 {
				res.Violations = append(res.Violations, VerifC17Violation{Sig: "not-idempotent", What: fmt.Sprintf("repeating the run with unchanged results created %d and deleted %d comments", len(o.created), len(o.deleted)), Path: append(append([]string{}, p...), ev)})
			}
			if len(res.Violations) == violsBefore { // nothing is explored past a violating transition
				push(ev, o.store)
			}
		}
	}
	res.States = len(seen)
	return res
}

// VerifGLPendingFor: the discussions pint would open for a set of reports, as initial store material.
func VerifGLPendingFor(reports []Report, showDuplicates bool, author string) (out []VerifGLDisc) {
	for _, c := range VerifPendingFor(reports, showDuplicates) {
		out = append(out, VerifGLDisc{[]VerifGLNote{{author, false, c.Text, c.Path, c.Line}}})
	}
	return out
}

func dbgFile() io.Writer {
	f, err := os.OpenFile(os.Getenv("VERIF_C17_DEBUG"), os.O_APPEND|os.O_CREATE|os.O_WRONLY, 0o644)
	if err != nil {
		return io.Discard
	}
	return f
}
