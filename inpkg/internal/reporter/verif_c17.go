//go:build verif

package reporter

import (
	"context"
	"fmt"
	"sort"
	"strings"
)

// VerifTick is called once per expanded state of a search (the harness points it at the explorer's heartbeat).
var VerifTick = func() {}

// VerifComment is one comment of the in-memory store.
type VerifComment struct {
	Path string
	Line int
	Text string
}

// verifStore is an in-memory Commenter. Equality, creation budget and deletion rights are the real
// GitLab / GitHub implementations (they do not need an API client for these methods).
type verifStore struct {
	comments    []VerifComment
	maxComments int
	canDelete   bool
	created     []VerifComment
	deleted     []VerifComment
}

func (s *verifStore) Describe() string                                     { return "verif" }
func (s *verifStore) Destinations(context.Context) ([]any, error)          { return []any{1}, nil }
func (s *verifStore) Summary(context.Context, any, Summary, []error) error { return nil }
func (s *verifStore) List(context.Context, any) (out []ExistingComment, _ error) {
	for i, c := range s.comments {
		out = append(out, ExistingComment{meta: i, path: c.Path, line: c.Line, text: c.Text})
	}
	return out, nil
}
func (s *verifStore) Create(_ context.Context, _ any, p PendingComment) error {
	c := VerifComment{p.path, p.line, p.text}
	s.comments = append(s.comments, c)
	s.created = append(s.created, c)
	return nil
}
func (s *verifStore) Delete(_ context.Context, _ any, e ExistingComment) error {
	for i, c := range s.comments {
		if c.Path == e.path && c.Line == e.line && c.Text == e.text {
			s.comments = append(s.comments[:i], s.comments[i+1:]...)
			s.deleted = append(s.deleted, c)
			return nil
		}
	}
	return fmt.Errorf("delete of a comment that does not exist: %s:%d", e.path, e.line)
}
func (s *verifStore) CanCreate(done int) bool {
	return GitLabReporter{maxComments: s.maxComments}.CanCreate(done)
}
func (s *verifStore) CanDelete(e ExistingComment) bool {
	if s.canDelete {
		return GitLabReporter{}.CanDelete(e)
	}
	return GithubReporter{}.CanDelete(e)
}
func (s *verifStore) IsEqual(dst any, e ExistingComment, p PendingComment) bool {
	return GitLabReporter{}.IsEqual(dst, e, p)
}

func canon(cs []VerifComment) string {
	var l []string
	for _, c := range cs {
		l = append(l, fmt.Sprintf("%s:%d:%s", c.Path, c.Line, c.Text))
	}
	sort.Strings(l)
	return strings.Join(l, "\x00")
}

// VerifC17Violation is one invariant violation found on a transition.
type VerifC17Violation struct {
	Sig, What string
	Path      []string // event path from the initial store
}

// VerifC17Result reports what the search covered.
type VerifC17Result struct {
	States, Transitions int
	MaxDepth            int
	Violations          []VerifC17Violation
	SampleState         string
}

// VerifC17BFS explores, breadth first and to closure, every comment-store state reachable from the
// initial stores by events run(R): the real Submit with the summary of report set R (a subset of
// universe, given as a bit mask). Invariants are evaluated on every transition.
func VerifC17BFS(universe []Report, initial [][]VerifComment, maxComments int, canDelete, showDuplicates bool) (res VerifC17Result) {
	type node struct {
		store []VerifComment
		path  []string
	}
	seen := map[string]bool{}
	var queue []node
	for i, st := range initial {
		k := canon(st)
		if !seen[k] {
			seen[k] = true
			queue = append(queue, node{st, []string{fmt.Sprintf("init%d", i)}})
		}
	}
	summaryOf := func(mask int) Summary {
		var rs []Report
		for i, r := range universe {
			if mask&(1<<i) != 0 {
				rs = append(rs, r)
			}
		}
		s := NewSummary(rs)
		s.SortReports()
		s.Dedup()
		return s
	}
	run := func(store []VerifComment, mask int) *verifStore {
		st := &verifStore{comments: append([]VerifComment(nil), store...), maxComments: maxComments, canDelete: canDelete}
		if err := Submit(context.Background(), summaryOf(mask), st, showDuplicates); err != nil {
			panic(err)
		}
		return st
	}
	viol := func(n node, ev, sig, what string) {
		res.Violations = append(res.Violations, VerifC17Violation{Sig: sig, What: what, Path: append(append([]string{}, n.path...), ev)})
	}
	matches := func(c VerifComment, p PendingComment) bool {
		return GitLabReporter{}.IsEqual(nil, ExistingComment{path: c.Path, line: c.Line, text: c.Text}, p)
	}
	for len(queue) > 0 {
		n := queue[0]
		queue = queue[1:]
		if len(n.path) > res.MaxDepth {
			res.MaxDepth = len(n.path)
		}
		VerifTick()
		for mask := 0; mask < 1<<len(universe); mask++ {
			ev := fmt.Sprintf("run(%05b)", mask)
			res.Transitions++
			sum := summaryOf(mask)
			pending := makeComments(sum, showDuplicates)
			// new comments needed = pending not matched by the pre-state
			needed := 0
			for _, p := range pending {
				found := false
				for _, c := range n.store {
					if matches(c, p) {
						found = true
						break
					}
				}
				if !found {
					needed++
				}
			}
			st := run(n.store, mask)
			// budget
			if len(st.created) > maxComments {
				viol(n, ev, "budget-exceeded", fmt.Sprintf("%d comments created in one run, maxComments=%d", len(st.created), maxComments))
			}
			// nothing created that equals a comment that already existed
			for _, c := range st.created {
				for _, old := range n.store {
					if old.Path == c.Path && old.Line == c.Line && strings.Trim(old.Text, "\n") == strings.Trim(c.Text, "\n") {
						viol(n, ev, "duplicate-comment-created", fmt.Sprintf("created a comment equal to an existing one at %s:%d", c.Path, c.Line))
					}
				}
			}
			// nothing created twice in one run
			for i := range st.created {
				for j := 0; j < i; j++ {
					if st.created[i] == st.created[j] {
						viol(n, ev, "same-comment-created-twice", fmt.Sprintf("two identical comments created at %s:%d", st.created[i].Path, st.created[i].Line))
					}
				}
			}
			// coverage: every reported problem's text is carried by a pending comment at its path, and every
			// pending comment is in the store afterwards, except at most needed-maxComments deferred ones
			for i, r := range universe {
				if mask&(1<<i) == 0 {
					continue
				}
				if !showDuplicates && isFolded(sum, r) {
					continue
				}
				carried := false
				for _, p := range pending {
					if p.path == r.Path.SymlinkTarget && strings.Contains(p.text, r.Problem.Summary) && strings.Contains(p.text, r.Problem.Details) && r.Problem.Lines.First <= p.line && p.line <= r.Problem.Lines.Last {
						carried = true
					}
				}
				if !carried {
					viol(n, ev, "problem-not-in-any-comment", fmt.Sprintf("problem %q at %s:%d-%d is not carried by any comment", r.Problem.Summary, r.Path.Name, r.Problem.Lines.First, r.Problem.Lines.Last))
				}
			}
			uncovered := 0
			for _, p := range pending {
				found := false
				for _, c := range st.comments {
					if matches(c, p) {
						found = true
						break
					}
				}
				if !found {
					uncovered++
				}
			}
			deferred := needed - maxComments
			if deferred < 0 {
				deferred = 0
			}
			if uncovered > deferred {
				viol(n, ev, "problem-left-uncovered", fmt.Sprintf("%d pending comments are missing after the run although only %d may be deferred by the budget (needed=%d, maxComments=%d)", uncovered, deferred, needed, maxComments))
			}
			// stale comments
			for _, c := range st.comments {
				stale := true
				for _, p := range pending {
					if matches(c, p) {
						stale = false
					}
				}
				if stale && canDelete {
					viol(n, ev, "stale-comment-survives", fmt.Sprintf("comment at %s:%d matches no problem and was not removed", c.Path, c.Line))
				}
			}
			for _, c := range st.deleted {
				if !canDelete {
					viol(n, ev, "deleted-without-permission", fmt.Sprintf("deleted %s:%d although the reporter cannot delete", c.Path, c.Line))
				}
				for _, p := range pending {
					if matches(c, p) {
						viol(n, ev, "live-comment-deleted", fmt.Sprintf("deleted the comment at %s:%d that still corresponds to a problem", c.Path, c.Line))
					}
				}
			}
			// idempotence / convergence
			cur := st.comments
			steps := 0
			for uncoveredNow := uncovered; ; {
				again := run(cur, mask)
				if uncoveredNow == 0 {
					if len(again.created) != 0 || len(again.deleted) != 0 {
						viol(n, ev, "not-idempotent", fmt.Sprintf("repeating the run with unchanged results created %d and deleted %d comments", len(again.created), len(again.deleted)))
					}
					break
				}
				steps++
				if steps > needed {
					viol(n, ev, "does-not-converge", fmt.Sprintf("still %d comments missing after %d repeated runs", uncoveredNow, steps))
					break
				}
				cur = again.comments
				uncoveredNow = 0
				for _, p := range pending {
					found := false
					for _, c := range cur {
						if matches(c, p) {
							found = true
						}
					}
					if !found {
						uncoveredNow++
					}
				}
			}
			k := canon(st.comments)
			if !seen[k] {
				seen[k] = true
				queue = append(queue, node{st.comments, append(append([]string{}, n.path...), ev)})
				if res.SampleState == "" && len(st.comments) > 1 {
					res.SampleState = fmt.Sprintf("%d comments, e.g. %s:%d", len(st.comments), st.comments[0].Path, st.comments[0].Line)
				}
			}
		}
	}
	res.States = len(seen)
	return res
}

func isFolded(s Summary, r Report) bool {
	for _, x := range s.reports {
		if x.IsDuplicate && x.Problem.Summary == r.Problem.Summary && x.Problem.Details == r.Problem.Details && x.Path.Name == r.Path.Name && x.Problem.Lines == r.Problem.Lines && x.Problem.Reporter == r.Problem.Reporter {
			return true
		}
	}
	return false
}

// VerifPendingFor returns the comments Submit would want for a set of reports (for initial stores).
func VerifPendingFor(reports []Report, showDuplicates bool) (out []VerifComment) {
	s := NewSummary(reports)
	s.SortReports()
	s.Dedup()
	for _, p := range makeComments(s, showDuplicates) {
		out = append(out, VerifComment{p.path, p.line, p.text})
	}
	return out
}
