//go:build verif

package reporter

import (
	"context"
	"encoding/json"
	"fmt"
	"io"
	"net/http"
	"net/http/httptest"
	"sort"
	"strconv"
	"strings"
	"time"
)

// The GitHub platform layer of C17: the real GithubReporter (Destinations / List / Create / IsEqual with its
// line fixing / Summary) over HTTP against a stateful fake of the pull request review-comments API. GitHub
// comments are never deleted by pint, so stores only grow.

type ghFake struct {
	comments []VerifComment
	patches  map[string]string
	nextID   int64
	created  []VerifComment
	reviews  int
	generals int
	bad      []string
}

func (f *ghFake) ServeHTTP(w http.ResponseWriter, r *http.Request) {
	w.Header().Set("Content-Type", "application/json")
	p := strings.TrimPrefix(r.URL.Path, "/api/v3")
	switch {
	case p == "/repos/o/r/pulls/1/files":
		type cf struct {
			Filename string `json:"filename"`
			Patch    string `json:"patch"`
		}
		var l []cf
		var names []string
		for n := range f.patches {
			names = append(names, n)
		}
		sort.Strings(names)
		for _, n := range names {
			l = append(l, cf{n, f.patches[n]})
		}
		json.NewEncoder(w).Encode(l)
	case p == "/repos/o/r/pulls/1/comments" && r.Method == http.MethodGet:
		type pc struct {
			ID   int64  `json:"id"`
			Path string `json:"path"`
			Line int    `json:"line"`
			Body string `json:"body"`
		}
		l := []pc{}
		for i, c := range f.comments {
			l = append(l, pc{int64(i + 1), c.Path, c.Line, c.Text})
		}
		json.NewEncoder(w).Encode(l)
	case p == "/repos/o/r/pulls/1/comments" && r.Method == http.MethodPost:
		var req struct {
			Path string `json:"path"`
			Line int    `json:"line"`
			Body string `json:"body"`
			Side string `json:"side"`
		}
		b, _ := io.ReadAll(r.Body)
		if err := json.Unmarshal(b, &req); err != nil || req.Path == "" || req.Line == 0 {
			f.bad = append(f.bad, "unusable comment request: "+string(b))
			w.WriteHeader(http.StatusUnprocessableEntity)
			io.WriteString(w, `{"message":"invalid"}`)
			return
		}
		c := VerifComment{req.Path, req.Line, req.Body}
		f.comments = append(f.comments, c)
		f.created = append(f.created, c)
		w.WriteHeader(http.StatusCreated)
		io.WriteString(w, `{"id": 1}`)
	case p == "/repos/o/r/pulls/1/reviews" && r.Method == http.MethodGet:
		if f.reviews > 0 {
			io.WriteString(w, `[{"id":1,"body":"### This pull request was validated by [pint](https://github.com/cloudflare/pint).\n"}]`)
		} else {
			io.WriteString(w, `[]`)
		}
	case p == "/repos/o/r/pulls/1/reviews" && r.Method == http.MethodPost:
		f.reviews++
		io.WriteString(w, `{"id":1}`)
	case p == "/repos/o/r/pulls/1/reviews/1" && r.Method == http.MethodPut:
		io.WriteString(w, `{"id":1}`)
	case p == "/repos/o/r/issues/1/comments" && r.Method == http.MethodPost:
		f.generals++
		w.WriteHeader(http.StatusCreated)
		io.WriteString(w, `{"id":1}`)
	default:
		f.bad = append(f.bad, "unexpected request "+r.Method+" "+r.URL.String())
		w.WriteHeader(http.StatusNotFound)
		io.WriteString(w, `{"message":"not found"}`)
	}
}

// VerifGHPatch builds the patch of a file: "all-added" (a new file of 20 lines) or "partial" (a 9-line file in
// which only lines 4 and 5 were modified, everything else is context).
func VerifGHPatch(kind string) string {
	var sb strings.Builder
	if kind == "all-added" {
		sb.WriteString("@@ -0,0 +1,20 @@\n")
		for i := 1; i <= 20; i++ {
			fmt.Fprintf(&sb, "+line %d\n", i)
		}
		return sb.String()
	}
	sb.WriteString("@@ -1,9 +1,9 @@\n line 1\n line 2\n line 3\n-old 4\n-old 5\n+new 4\n+new 5\n line 6\n line 7\n line 8\n line 9\n")
	return sb.String()
}

// VerifC17GitHubBFS: breadth-first search to closure over review-comment stores reachable by run(R) events,
// every run being the real Submit through the real GithubReporter over HTTP.
func VerifC17GitHubBFS(universe []Report, initial [][]VerifComment, patches map[string]string, maxComments int, showDuplicates bool) (res VerifC17Result) {
	fake := &ghFake{patches: patches}
	srv := httptest.NewServer(fake)
	defer srv.Close()
	gr, err := NewGithubReporter(context.Background(), "v0", srv.URL, srv.URL, time.Minute, "token", "o", "r", 1, maxComments, "head", showDuplicates)
	if err != nil {
		panic(err)
	}
	dsts, err := func() ([]any, error) { fake.comments = nil; return gr.Destinations(context.Background()) }()
	if err != nil || len(dsts) != 1 {
		panic(fmt.Sprint("destinations: ", err))
	}
	dst := dsts[0]
	type node struct {
		store []VerifComment
		path  []string
	}
	seen := map[string]bool{}
	var queue []node
	for i, st := range initial {
		if k := canon(st); !seen[k] {
			seen[k] = true
			queue = append(queue, node{st, []string{fmt.Sprintf("init%d", i)}})
		}
	}
	summaryOf := func(mask int) Summary {
		var rs []Report
		for i, r := range universe {
			if mask&(1<<i) != 0 {
				rs = append(rs, r)
			}
		}
		s := NewSummary(rs)
		s.SortReports()
		s.Dedup()
		return s
	}
	type outcome struct {
		store, created []VerifComment
		bad            []string
		err            error
	}
	run := func(store []VerifComment, mask int) outcome {
		fake.comments = append([]VerifComment(nil), store...)
		fake.created, fake.bad = nil, nil
		err := Submit(context.Background(), summaryOf(mask), gr, showDuplicates)
		return outcome{append([]VerifComment(nil), fake.comments...), append([]VerifComment(nil), fake.created...), append([]string(nil), fake.bad...), err}
	}
	matches := func(c VerifComment, p PendingComment) bool {
		return gr.IsEqual(dst, ExistingComment{path: c.Path, line: c.Line, text: c.Text}, p)
	}
	uncoveredIn := func(cs []VerifComment, pending []PendingComment) int {
		n := 0
		for _, p := range pending {
			found := false
			for _, c := range cs {
				if matches(c, p) {
					found = true
				}
			}
			if !found {
				n++
			}
		}
		return n
	}
	changes := map[string]int{}
	mustBeFixpoint := map[string][]string{}
	for len(queue) > 0 {
		n := queue[0]
		queue = queue[1:]
		if len(n.path) > res.MaxDepth {
			res.MaxDepth = len(n.path)
		}
		VerifTick()
		if len(seen) > 100000 {
			res.Violations = append(res.Violations, VerifC17Violation{Sig: "state-space-does-not-close", What: "more than 100000 distinct stores reached: some run keeps creating comments", Path: n.path})
			break
		}
		for mask := 0; mask < 1<<len(universe); mask++ {
			ev := fmt.Sprintf("run(%0*b)", len(universe), mask)
			res.Transitions++
			violsBefore := len(res.Violations)
			viol := func(sig, what string) {
				res.Violations = append(res.Violations, VerifC17Violation{Sig: sig, What: what, Path: append(append([]string{}, n.path...), ev)})
			}
			pending := makeComments(summaryOf(mask), showDuplicates)
			needed := uncoveredIn(n.store, pending)
			o := run(n.store, mask)
			if o.err != nil {
				viol("submit-error", o.err.Error())
				continue
			}
			for _, b := range o.bad {
				viol("bad-api-use", b)
			}
			if len(o.created) > maxComments {
				viol("budget-exceeded", fmt.Sprintf("%d comments created in one run, maxComments=%d", len(o.created), maxComments))
			}
			for _, c := range o.created {
				for _, old := range n.store {
					if old.Path == c.Path && old.Line == c.Line && strings.Trim(old.Text, "\n") == strings.Trim(c.Text, "\n") {
						viol("duplicate-comment-created", fmt.Sprintf("created a comment equal to an existing one at %s:%d", c.Path, c.Line))
					}
				}
			}
			for i := range o.created {
				for j := 0; j < i; j++ {
					if o.created[i] == o.created[j] {
						viol("same-comment-created-twice", fmt.Sprintf("two identical comments created at %s:%d", o.created[i].Path, o.created[i].Line))
					}
				}
			}
			if len(o.store) != len(n.store)+len(o.created) {
				viol("comment-removed", "the store lost comments although GitHub comments are never deleted")
			}
			uncovered := uncoveredIn(o.store, pending)
			deferred := needed - maxComments
			if deferred < 0 {
				deferred = 0
			}
			if uncovered > deferred {
				viol("problem-left-uncovered", fmt.Sprintf("%d pending comments are missing after the run although only %d may be deferred by the budget (needed=%d, maxComments=%d)", uncovered, deferred, needed, maxComments))
			}
			afterKey := canon(o.store)
			changes[canon(n.store)+"\x02"+strconv.Itoa(mask)] = len(o.created)
			if uncovered == 0 {
				key := afterKey + "\x02" + strconv.Itoa(mask)
				if ch, done := changes[key]; done {
					if ch != 0 {
						viol("not-idempotent", fmt.Sprintf("repeating the run with unchanged results created %d comments", ch))
					}
				} else {
					mustBeFixpoint[key] = append(append([]string{}, n.path...), ev)
				}
			} else {
				cur := o.store
				for steps, left := 0, uncovered; left > 0; {
					steps++
					if steps > needed {
						viol("does-not-converge", fmt.Sprintf("still %d comments missing after %d repeated runs", left, steps))
						break
					}
					again := run(cur, mask)
					if again.err != nil {
						viol("submit-error", again.err.Error())
						break
					}
					cur = again.store
					left = uncoveredIn(cur, pending)
				}
			}
			if p, owed := mustBeFixpoint[canon(n.store)+"\x02"+strconv.Itoa(mask)]; owed && len(o.created) != 0 {
				res.Violations = append(res.Violations, VerifC17Violation{Sig: "not-idempotent", What: fmt.Sprintf("repeating the run with unchanged results created %d comments", len(o.created)), Path: append(append([]string{}, p...), ev)})
			}
			if len(res.Violations) == violsBefore {
				if k := canon(o.store); !seen[k] {
					seen[k] = true
					queue = append(queue, node{o.store, append(append([]string{}, n.path...), ev)})
					if res.SampleState == "" && len(o.store) > 1 {
						res.SampleState = fmt.Sprintf("%d comments, e.g. %s:%d", len(o.store), o.store[0].Path, o.store[0].Line)
					}
				}
			}
		}
	}
	res.States = len(seen)
	return res
}
