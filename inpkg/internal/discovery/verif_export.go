//go:build verif

package discovery

import (
	"io"
	"regexp"

	"github.com/cloudflare/pint/internal/parser"
)

// VerifReadRules exposes readRules (the function GlobFinder.Find applies to every file) to the
// verification harnesses, which feed it bytes instead of an *os.File.
func VerifReadRules(reportedPath, sourcePath string, r io.Reader, p parser.Parser, allowedOwners []*regexp.Regexp) ([]Entry, error) {
	return readRules(reportedPath, sourcePath, r, p, allowedOwners)
}
